package main

// Black-box part: two real muxers over the scheduling in-memory MsgConn pair.
//  (1) concurrent creation: goroutines on both sides create reliable and unreliable tubes at the same time and
//      exchange tube-specific data in both directions; oracle: identifiers of simultaneously live tubes of one
//      kind are distinct and have the creator's parity; every created tube is offered to the peer's Accept
//      exactly once with the creator's type and reliability; each reader gets exactly what was written on ITS
//      tube (reliable: the byte stream; unreliable: whole messages that were written on it).
//  (2) identifier reuse with a datagram of the predecessor held back by the network and released after the
//      successor took the identifier (the history named in the property): reliable data frame, and REQ frame.

import (
	"bytes"
	"fmt"
	"io"
	"sort"
	"sync"
	"time"

	"hop.computer/hop/tubes"
	"verifharness/hv"
	hx "verifharness/hvxtubes"
)

var emitMu sync.Mutex

func safeEmit(c hv.Case) {
	emitMu.Lock()
	hv.Emit(c)
	emitMu.Unlock()
}

type created struct {
	side  int // 0 client, 1 server
	rel   bool
	id    byte
	ty    byte
	data  []byte   // reliable: stream written by the creator
	msgs  [][]byte // unreliable: messages written by the creator
	reply []byte   // what the acceptor writes back (reliable)
}

func tubeData(side int, rel bool, id byte, ty byte, n int) []byte {
	r := hv.NewRand(uint64(side)<<40 | uint64(id)<<16 | uint64(ty)<<8 | 1)
	b := r.Bytes(n)
	tag := []byte(fmt.Sprintf("<side%d rel%v id%d type%d>", side, rel, id, ty))
	copy(b, tag)
	return b
}

func runConcurrent(seed uint64, nEach int, pol func(*hv.Rand) hx.Policy) {
	a, b := hx.NewPair()
	mux := []*tubes.Muxer{tubes.Client(a, &tubes.Config{Log: quietLog()}), tubes.Server(b, &tubes.Config{Log: quietLog()})}
	r := hv.NewRand(seed)
	if pol != nil {
		a.Out().SetPolicy(pol(hv.NewRand(r.U64())))
		b.Out().SetPolicy(pol(hv.NewRand(r.U64())))
	}
	var mu sync.Mutex
	reg := map[string]*created{} // key: creator side / rel / id
	key := func(side int, rel bool, id byte) string { return fmt.Sprintf("%d/%v/%d", side, rel, id) }
	var fails []string
	var sigs []string
	fail := func(sig, w string) {
		mu.Lock()
		fails = append(fails, w)
		sigs = append(sigs, sig)
		mu.Unlock()
	}
	accepted := map[string]int{}
	var wg sync.WaitGroup
	deadline := time.Now().Add(time.Duration(hv.Scale(30, 90)) * time.Second)

	// acceptors
	stopAccept := make(chan struct{})
	for side := 0; side < 2; side++ {
		go func(side int) {
			for {
				t, err := mux[side].Accept()
				if err != nil {
					return
				}
				creator := 1 - side
				k := key(creator, t.IsReliable(), t.GetID())
				mu.Lock()
				accepted[k]++
				cnt := accepted[k]
				c := reg[k]
				mu.Unlock()
				if t.GetID()%2 != byte(1-creator) {
					fail("C09:accepted-id-has-wrong-parity", fmt.Sprintf("side %d accepted tube id %d, the peer (parity %d) cannot have created it", side, t.GetID(), 1-creator))
				}
				if cnt > 1 {
					fail("C09:tube-offered-twice-or-unrequested", fmt.Sprintf("tube %s was offered to Accept %d times", k, cnt))
					continue
				}
				wg.Add(1)
				go func() {
					defer wg.Done()
					// the creator registers before it writes; wait for the registration
					for i := 0; c == nil && i < 2000; i++ {
						time.Sleep(time.Millisecond)
						mu.Lock()
						c = reg[k]
						mu.Unlock()
					}
					if c == nil {
						fail("C09:tube-offered-twice-or-unrequested", fmt.Sprintf("Accept returned tube %s that nobody created", k))
						return
					}
					if byte(t.Type()) != c.ty {
						fail("C09:accepted-tube-differs-from-request", fmt.Sprintf("tube %s accepted with type %d, created with type %d", k, t.Type(), c.ty))
					}
					if t.IsReliable() {
						got := readStream(t, len(c.data), deadline)
						if !bytes.Equal(got, c.data) {
							fail("C09:tube-reader-got-foreign-or-wrong-bytes", fmt.Sprintf("acceptor of %s read %d bytes starting % x, the creator wrote %d bytes starting % x", k, len(got), trunc(got), len(c.data), trunc(c.data)))
						}
						t.Write(c.reply)
						t.Close()
					} else {
						u := t.(*tubes.Unreliable)
						checkMsgs(u, c.msgs, k, deadline, fail)
					}
				}()
				select {
				case <-stopAccept:
					return
				default:
				}
			}
		}(side)
	}

	// creators
	liveMu := sync.Mutex{}
	live := map[string]bool{}
	for side := 0; side < 2; side++ {
		for g := 0; g < nEach; g++ {
			wg.Add(1)
			go func(side, g int) {
				defer wg.Done()
				rr := hv.NewRand(seed*1000 + uint64(side*100+g))
				rel := rr.Chance(60)
				ty := byte(1 + rr.Intn(200))
				var t tubes.Tube
				var err error
				if rel {
					t, err = mux[side].CreateReliableTube(tubes.TubeType(ty))
				} else {
					t, err = mux[side].CreateUnreliableTube(tubes.TubeType(ty))
				}
				if err != nil {
					fail("C09:create-fails-with-free-ids", fmt.Sprintf("side %d: Create(rel=%v) failed: %v", side, rel, err))
					return
				}
				id := t.GetID()
				k := key(side, rel, id)
				if id%2 != byte(1-side) {
					fail("C09:created-id-has-wrong-parity", fmt.Sprintf("side %d (parity %d) created tube id %d", side, 1-side, id))
				}
				liveMu.Lock()
				if live[k] {
					fail("C09:created-id-clashes-with-live-tube", fmt.Sprintf("two simultaneously live tubes %s", k))
				}
				live[k] = true
				liveMu.Unlock()
				c := &created{side: side, rel: rel, id: id, ty: ty}
				if rel {
					c.data = tubeData(side, rel, id, ty, 200+rr.Intn(30000))
					c.reply = tubeData(side+2, rel, id, ty, 100+rr.Intn(5000))
				} else {
					for i := 0; i < 6; i++ {
						c.msgs = append(c.msgs, tubeData(side, rel, id, byte(i), 40+rr.Intn(900)))
					}
				}
				mu.Lock()
				reg[k] = c
				mu.Unlock()
				if rel {
					rt := t.(*tubes.Reliable)
					rt.Write(c.data)
					got := readStream(rt, len(c.reply), deadline)
					if !bytes.Equal(got, c.reply) {
						fail("C09:tube-reader-got-foreign-or-wrong-bytes", fmt.Sprintf("creator of %s read %d reply bytes starting % x, the acceptor wrote %d bytes starting % x", k, len(got), trunc(got), len(c.reply), trunc(c.reply)))
					}
					rt.Close()
				} else {
					u := t.(*tubes.Unreliable)
					for round := 0; round < 3; round++ { // unreliable: repeat, the network may drop
						for _, m := range c.msgs {
							u.WriteMsgUDP(m, nil, nil)
						}
						time.Sleep(30 * time.Millisecond)
					}
				}
				// the tube stays live until the end of the run: identifiers are not reused in this scenario
			}(side, g)
		}
	}
	done := make(chan struct{})
	go func() { wg.Wait(); close(done) }()
	select {
	case <-done:
	case <-time.After(time.Until(deadline) + 5*time.Second):
		fail("C09:concurrent-run-did-not-finish", "tube creation / transfer did not finish in time")
	}
	// every created tube must have been offered exactly once
	time.Sleep(50 * time.Millisecond)
	mu.Lock()
	var keys []string
	for k := range reg {
		keys = append(keys, k)
	}
	sort.Strings(keys)
	for _, k := range keys {
		if accepted[k] != 1 {
			fails = append(fails, fmt.Sprintf("tube %s was created by its opener but offered to the peer's Accept %d times", k, accepted[k]))
			sigs = append(sigs, "C09:remote-tube-not-offered")
		}
	}
	nCreated := len(reg)
	ok := len(fails) == 0
	what, sig := "", ""
	if !ok {
		what, sig = fails[0], sigs[0]
	}
	mu.Unlock()
	close(stopAccept)
	go mux[0].Stop()
	go mux[1].Stop()
	faulty := "clean network"
	if pol != nil {
		faulty = "duplicating/reordering network"
	}
	safeEmit(hv.Case{Class: "net-concurrent-create", Desc: fmt.Sprintf("net concurrent seed=%d creators-per-side=%d %s: %d tubes created", seed, nEach, faulty, nCreated),
		Spec: ok, Sig: sig, What: what, NT: true})
}

func readStream(t io.Reader, want int, deadline time.Time) []byte {
	var got []byte
	buf := make([]byte, 1<<16)
	type dl interface{ SetReadDeadline(time.Time) error }
	for len(got) < want && time.Now().Before(deadline) {
		if d, ok := t.(dl); ok {
			d.SetReadDeadline(time.Now().Add(300 * time.Millisecond))
		}
		n, err := t.Read(buf)
		got = append(got, buf[:n]...)
		if err == io.EOF {
			break
		}
	}
	if d, ok := t.(dl); ok {
		d.SetReadDeadline(time.Time{})
	}
	return got
}

func checkMsgs(u *tubes.Unreliable, written [][]byte, k string, deadline time.Time, fail func(string, string)) {
	buf := make([]byte, 1<<17)
	seen := 0
	for seen < len(written)*2 && time.Now().Before(deadline) {
		u.SetReadDeadline(time.Now().Add(400 * time.Millisecond))
		n, _, _, _, err := u.ReadMsgUDP(buf, nil)
		if err != nil {
			if seen >= len(written) {
				return
			}
			continue
		}
		m := buf[:n]
		found := false
		for _, w := range written {
			if bytes.Equal(w, m) {
				found = true
			}
		}
		if !found {
			fail("C09:unreliable-message-not-as-written", fmt.Sprintf("reader of %s got a %d-byte message starting % x that was never written on this tube", k, n, trunc(m)))
			return
		}
		seen++
	}
}

// identifier reuse with a held-back datagram of the predecessor
func runReuse(kind string) {
	a, b := hx.NewPair()
	mc := tubes.Client(a, &tubes.Config{Log: quietLog()})
	ms := tubes.Server(b, &tubes.Config{Log: quietLog()})
	defer func() { go mc.Stop(); go ms.Stop() }()
	held := false
	var mu sync.Mutex
	a.Out().SetPolicy(func(n int, t time.Duration, p []byte) hx.Fate {
		mu.Lock()
		defer mu.Unlock()
		if held || len(p) < 4 {
			return hx.Fate{}
		}
		isREQ := p[1]&1 != 0
		isData := p[1]&3 == 0 && (int(p[2])<<8|int(p[3])) > 0
		if (kind == "data" && isData) || (kind == "req" && isREQ) {
			held = true
			return hx.Fate{Hold: true} // the first copy stays in the network; the retransmission gets through
		}
		return hx.Fate{}
	})
	ok, sig, what := true, "", ""
	desc := "net id-reuse: client opens reliable tube, the network holds back the first copy of its " + kind + " frame, the tube is used and closed on both sides and reaped, (data: the client opens a new reliable tube, same id,) the held datagram is released"
	emit := func() {
		safeEmit(hv.Case{Class: "net-id-reuse-held-" + kind, Desc: desc, Spec: ok, Sig: sig, What: what, NT: true})
	}
	t1, err := mc.CreateReliableTube(5)
	if err != nil {
		return
	}
	old := []byte("OLD-INSTANCE: bytes written on the first tube with this identifier")
	t1.Write(old)
	s1t, err := ms.Accept()
	if err != nil {
		return
	}
	s1 := s1t.(*tubes.Reliable)
	got := readStream(s1, len(old), time.Now().Add(10*time.Second))
	if !bytes.Equal(got, old) {
		ok, sig, what = false, "C09:tube-reader-got-foreign-or-wrong-bytes", "first tube did not deliver its own data"
		emit()
		return
	}
	id1 := t1.GetID()
	t1.Close()
	s1.Close()
	t1.WaitForClose()
	s1.WaitForClose()
	// wait until both muxers have reaped the tube (the opener waits 4*RTT)
	dl := time.Now().Add(10 * time.Second)
	for (tubes.VerifMuxHas(mc, true, id1) || tubes.VerifMuxHas(ms, true, id1)) && time.Now().Before(dl) {
		time.Sleep(time.Millisecond)
	}
	if len(a.Out().Held()) == 0 {
		desc += " [nothing was held: scenario not reached]"
		emit()
		return
	}
	if kind == "req" {
		// the delayed REQ of the closed tube arrives: no tube may be offered, the peer opened one tube and it was accepted
		a.Out().Release()
		time.Sleep(150 * time.Millisecond)
		if t, okA := tubes.VerifMuxTryAccept(ms); okA {
			ok, sig = false, "C09:stale-req-creates-ghost-tube"
			what = fmt.Sprintf("the peer opened one tube (accepted, closed, reaped); when the delayed first copy of its REQ arrived, Accept offered another tube (rel=%v,id=%d,type=%d)", t.IsReliable(), t.GetID(), t.Type())
		}
		emit()
		return
	}
	t2, err := mc.CreateReliableTube(6)
	if err != nil || t2.GetID() != id1 {
		desc += " [identifier not reused: scenario not reached]"
		emit()
		return
	}
	s2t, err := ms.Accept()
	if err != nil {
		return
	}
	s2 := s2t.(*tubes.Reliable)
	t2.WaitForInit()
	s2.WaitForInit()
	a.Out().Release()
	time.Sleep(50 * time.Millisecond)
	if kind == "data" {
		s2.SetReadDeadline(time.Now().Add(300 * time.Millisecond))
		buf := make([]byte, 4096)
		n, _ := s2.Read(buf)
		if n > 0 {
			ok, sig = false, "C09:stale-frame-accepted-after-id-reuse"
			what = fmt.Sprintf("nothing was written on the second tube with id %d, yet its reader received %d bytes: %q (the delayed frame of the first tube)", id1, n, buf[:min(n, 40)])
		}
	}
	emit()
}

// more tubes opened than the acceptor's Accept queue holds before the application accepts anything
func runQueueFull(seed uint64) {
	a, b := hx.NewPair()
	mo := tubes.Client(a, &tubes.Config{Log: quietLog()})
	ma := tubes.Server(b, &tubes.Config{Log: quietLog()})
	defer func() { go mo.Stop(); go ma.Stop() }()
	r := hv.NewRand(seed)
	nUnrel := 2 + r.Intn(6)
	type ot struct {
		rel    bool
		id, ty byte
		inited bool
	}
	var mu sync.Mutex
	opened := map[string]*ot{}
	key := func(rel bool, id byte) string { return fmt.Sprintf("%v/%d", rel, id) }
	ok, sig, what := true, "", ""
	fail := func(s, w string) {
		mu.Lock()
		if ok {
			ok, sig, what = false, s, w
		}
		mu.Unlock()
	}
	mark := func(k string) {
		mu.Lock()
		opened[k].inited = true
		mu.Unlock()
	}
	total := 0
	for i := 0; i < 128+nUnrel; i++ {
		rel := i < 128
		ty := byte(1 + r.Intn(200))
		if rel {
			t, err := mo.CreateReliableTube(tubes.TubeType(ty))
			if err != nil {
				fail("C09:create-fails-with-free-ids", fmt.Sprintf("CreateReliableTube #%d failed: %v", i, err))
				break
			}
			k := key(true, t.GetID())
			mu.Lock()
			opened[k] = &ot{rel: true, id: t.GetID(), ty: ty}
			mu.Unlock()
			go func() { t.WaitForInit(); mark(k); t.Write(tubeData(0, true, t.GetID(), ty, 64)) }()
		} else {
			t, err := mo.CreateUnreliableTube(tubes.TubeType(ty))
			if err != nil {
				fail("C09:create-fails-with-free-ids", fmt.Sprintf("CreateUnreliableTube #%d failed: %v", i, err))
				break
			}
			k := key(false, t.GetID())
			mu.Lock()
			opened[k] = &ot{rel: false, id: t.GetID(), ty: ty}
			mu.Unlock()
			go func() {
				msg := tubeData(0, false, t.GetID(), ty, 64)
				if _, _, err := t.WriteMsgUDP(msg, nil, nil); err == nil { // returns once the tube is initiated
					mark(k)
					for j := 0; j < 40; j++ {
						time.Sleep(50 * time.Millisecond)
						t.WriteMsgUDP(msg, nil, nil)
					}
				}
			}()
		}
		total++
	}
	// the application is slow: it starts accepting only when the queue is full and the surplus requests have been
	// repeated a few times (stimulus only; nothing is judged by this timing)
	for i := 0; i < 4000; i++ {
		if _, _, q := tubes.VerifMuxSnapshot(ma); q >= 128 {
			break
		}
		time.Sleep(time.Millisecond)
	}
	time.Sleep(900 * time.Millisecond)
	offered := map[string]int{}
	deadline := time.Now().Add(time.Duration(hv.Scale(40, 90)) * time.Second)
	got := 0
	for got < total && time.Now().Before(deadline) {
		t, okA := tubes.VerifMuxTryAccept(ma)
		if !okA {
			time.Sleep(2 * time.Millisecond)
			continue
		}
		got++
		k := key(t.IsReliable(), t.GetID())
		offered[k]++
		mu.Lock()
		o := opened[k]
		mu.Unlock()
		if o == nil {
			fail("C09:tube-offered-twice-or-unrequested", fmt.Sprintf("Accept returned tube %s that the peer never opened", k))
			continue
		}
		if offered[k] > 1 {
			fail("C09:tube-offered-twice-or-unrequested", fmt.Sprintf("tube %s was offered %d times", k, offered[k]))
		}
		if byte(t.Type()) != o.ty {
			fail("C09:accepted-tube-differs-from-request", fmt.Sprintf("tube %s accepted with type %d, opened with type %d", k, t.Type(), o.ty))
		}
		want := tubeData(0, o.rel, o.id, o.ty, 64)
		go func(t tubes.Tube) {
			var data []byte
			if t.IsReliable() {
				data = readStream(t, len(want), deadline)
			} else {
				buf := make([]byte, 4096)
				u := t.(*tubes.Unreliable)
				for time.Now().Before(deadline) {
					u.SetReadDeadline(time.Now().Add(500 * time.Millisecond))
					n, _, _, _, err := u.ReadMsgUDP(buf, nil)
					if err == nil {
						data = buf[:n]
						break
					}
				}
			}
			if len(data) > 0 && !bytes.Equal(data, want) {
				fail("C09:tube-reader-got-foreign-or-wrong-bytes", fmt.Sprintf("acceptor of %s read % x, its opener wrote % x", k, trunc(data), trunc(want)))
			}
		}(t)
	}
	time.Sleep(200 * time.Millisecond)
	mu.Lock()
	var missing []string
	for k, o := range opened {
		if o.inited && offered[k] == 0 {
			missing = append(missing, k)
		}
	}
	sort.Strings(missing)
	mu.Unlock()
	if len(missing) > 0 {
		fail("C09:remote-tube-not-offered", fmt.Sprintf("the opener holds %d initiated tubes, the acceptor was offered %d; open at the opener but never offered: %v", total, got, missing))
	}
	safeEmit(hv.Case{Class: "net-accept-queue-full", Desc: fmt.Sprintf("net accept-queue-full seed=%d: the client opens 128 reliable + %d unreliable tubes before the server's application accepts anything, then everything is accepted", seed, nUnrel),
		Spec: ok, Sig: sig, What: what, NT: true})
}

// reopen-after-lost-final-ack: a reliable tube is opened; the opener closes first, the acceptor second (it waits
// in lastAck for the acknowledgement of its FIN); the network loses exactly the opener's last acknowledgement;
// `delay` after the opener's tube finished closing the opener creates another reliable tube of a different type
// and writes on it.  The new tube must be a tube of its own: offered to Accept exactly once with its id, type and
// reliability, its bytes arrive there and nothing else does.
func runReopen(delay time.Duration, withData bool) {
	a, b := hx.NewPair()
	mc := tubes.Client(a, &tubes.Config{Log: quietLog()})
	ms := tubes.Server(b, &tubes.Config{Log: quietLog()})
	defer func() { go mc.Stop(); go ms.Stop() }()
	ok, sig, what := true, "", ""
	note := ""
	desc := func() string {
		return fmt.Sprintf("net reopen-after-lost-final-ack: client opens reliable tube (type 5)%s, client closes first, server closes second, only the client's final ACK of the server's FIN is lost, %v after its tube finished closing the client opens a reliable tube of type 9 and writes 31 bytes%s",
			map[bool]string{true: ", writes 40 x 75 bytes that are read (its RTT estimate shrinks, the server's stays at 333 ms)", false: ""}[withData], delay, note)
	}
	emit := func() {
		safeEmit(hv.Case{Class: "net-reopen-after-lost-final-ack", Desc: desc(), Spec: ok, Sig: sig, What: what, NT: true,
			Key: fmt.Sprintf("reopen|%v|%v", delay, withData)})
	}
	accepted := make(chan tubes.Tube, 16)
	go func() {
		for {
			t, err := ms.Accept()
			if err != nil {
				close(accepted)
				return
			}
			accepted <- t
		}
	}()
	c1, err := mc.CreateReliableTube(5)
	if err != nil {
		return
	}
	var s1 *tubes.Reliable
	select {
	case t := <-accepted:
		s1 = t.(*tubes.Reliable)
	case <-time.After(10 * time.Second):
		note = " [first tube not accepted: scenario not reached]"
		emit()
		return
	}
	c1.WaitForInit()
	s1.WaitForInit()
	if withData {
		// forty separately acknowledged writes: the opener's RTT estimate converges to the (tiny) measured value,
		// the acceptor, which sends no data, keeps the initial 333 ms
		for i := 0; i < 40; i++ {
			d := tubeData(0, true, c1.GetID(), byte(i), 75)
			c1.Write(d)
			if got := readStream(s1, len(d), time.Now().Add(10*time.Second)); !bytes.Equal(got, d) {
				note = " [first tube did not deliver: scenario not reached]"
				emit()
				return
			}
			time.Sleep(3 * time.Millisecond)
		}
	}
	oldID := c1.GetID()
	c1.Close()
	// wait until the server has acknowledged the client's FIN
	for i := 0; i < 5000 && tubes.VerifTubeStateName(c1) != "finWait2"; i++ {
		time.Sleep(time.Millisecond)
	}
	if tubes.VerifTubeStateName(c1) != "finWait2" {
		note = " [client did not reach finWait2: scenario not reached]"
		emit()
		return
	}
	var dropped int
	var mu sync.Mutex
	a.Out().SetPolicy(func(n int, t time.Duration, p []byte) hx.Fate {
		if len(p) >= 2 && p[0] == oldID && p[1]&4 != 0 && p[1]&1 == 0 {
			mu.Lock()
			dropped++
			mu.Unlock()
			return hx.Fate{Drop: true}
		}
		return hx.Fate{}
	})
	s1.Close()
	c1.WaitForClose()
	closedAt := time.Now()
	time.Sleep(100 * time.Millisecond)
	a.Out().SetPolicy(nil)
	mu.Lock()
	nd := dropped
	mu.Unlock()
	if nd < 1 {
		note = " [the final ACK was not lost: scenario not reached]"
		emit()
		return
	}
	time.Sleep(time.Until(closedAt.Add(delay)))
	c2, err := mc.CreateReliableTube(9)
	if err != nil {
		ok, sig, what = false, "C09:create-fails-with-free-ids", fmt.Sprintf("second CreateReliableTube failed: %v", err)
		emit()
		return
	}
	msg := []byte("written on the second tube only")
	go func() { c2.WaitForInit(); c2.Write(msg) }()
	note = fmt.Sprintf(" [second tube got id %d, first had id %d; first server tube was %s]", c2.GetID(), oldID, tubes.VerifTubeStateName(s1))
	select {
	case t, more := <-accepted:
		if !more {
			return
		}
		if !t.IsReliable() || t.GetID() != c2.GetID() || byte(t.Type()) != 9 {
			ok, sig = false, "C09:accepted-tube-differs-from-request"
			what = fmt.Sprintf("the peer opened (rel=true,id=%d,type=9), Accept returned (rel=%v,id=%d,type=%d)", c2.GetID(), t.IsReliable(), t.GetID(), t.Type())
			break
		}
		got := readStream(t, len(msg), time.Now().Add(15*time.Second))
		if !bytes.Equal(got, msg) {
			ok, sig = false, "C09:reopened-tube-bytes-wrong-or-missing"
			what = fmt.Sprintf("the reader of the newly accepted tube %d got %q, its opener wrote %q", t.GetID(), got, msg)
		}
	case <-time.After(map[bool]time.Duration{false: 15 * time.Second, true: 5 * time.Second}[withData]):
		ok, sig = false, "C09:reopened-tube-not-offered"
		if withData {
			sig = "C09:id-reused-while-peer-in-lastack-asymmetric-rtt"
		}
		what = fmt.Sprintf("the client's new reliable tube (id %d, type 9, state %s) was not offered to the server's Accept within the time limit (15 s; 5 s for the known asymmetric case); the server's first tube with that id is %s and answers for it",
			c2.GetID(), tubes.VerifTubeStateName(c2), tubes.VerifTubeStateName(s1))
	}
	if ok {
		select {
		case t, more := <-accepted:
			if more {
				ok, sig = false, "C09:tube-offered-twice-or-unrequested"
				what = fmt.Sprintf("a further tube (rel=%v,id=%d,type=%d) was offered although the peer opened only two", t.IsReliable(), t.GetID(), t.Type())
			}
		case <-time.After(300 * time.Millisecond):
		}
	}
	emit()
}

// the reaper must keep the id of a closed, locally opened reliable tube reserved for at least 4*RTT (as long as the
// peer may wait in lastAck with the same estimate); timers never fire early, so the lower bound is robust under load
func runReapDelay() {
	a, _ := hx.NewPair()
	m := tubes.Client(a, &tubes.Config{Log: quietLog()})
	defer func() { go m.Stop() }()
	t, err := m.CreateReliableTube(3)
	if err != nil {
		return
	}
	id := t.GetID()
	t0 := time.Now()
	rtt, okc := tubes.VerifMuxForceCloseKeepRTT(m, id)
	if !okc {
		return
	}
	for tubes.VerifMuxHas(m, true, id) && time.Since(t0) < 20*time.Second {
		time.Sleep(200 * time.Microsecond)
	}
	el := time.Since(t0)
	ok, sig, what := true, "", ""
	if el < 4*rtt-time.Millisecond {
		ok, sig = false, "C09:id-freed-before-peer-lastack-can-expire"
		what = fmt.Sprintf("a closed locally opened reliable tube with RTT estimate %v released its id after %v; the peer may stay in lastAck for 4*RTT = %v with the same estimate", rtt, el.Round(time.Millisecond), 4*rtt)
	}
	if tubes.VerifMuxHas(m, true, id) {
		ok, sig, what = false, "C09:closed-tube-never-reaped", "the tube is still in the map after 20 s"
	}
	safeEmit(hv.Case{Class: "mux-reap-delay", Desc: fmt.Sprintf("reap delay of a closed locally opened reliable tube with the initial RTT estimate (%v): id released after %v", rtt, el.Round(time.Millisecond)),
		Spec: ok, Sig: sig, What: what, NT: true, Key: "reap-delay"})
}

func genNet(r *hv.Rand) {
	dupReorder := func(rr *hv.Rand) hx.Policy {
		var mu sync.Mutex
		return func(n int, t time.Duration, p []byte) hx.Fate {
			mu.Lock()
			defer mu.Unlock()
			f := hx.Fate{}
			if rr.Chance(15) {
				f.Dup = 1
			}
			f.Delay = time.Duration(rr.Intn(3000)) * time.Microsecond
			return f
		}
	}
	var wg sync.WaitGroup
	for i := 0; i < hv.Scale(3, 12); i++ {
		seed := r.U64() % 100000
		n := hv.Pick(r, []int{4, 12, 30})
		var pol func(*hv.Rand) hx.Policy
		if i%2 == 1 {
			pol = dupReorder
		}
		wg.Add(1)
		go func() { defer wg.Done(); runConcurrent(seed, n, pol) }()
	}
	for i := 0; i < hv.Scale(1, 3); i++ {
		seed := r.U64() % 100000
		wg.Add(1)
		go func() { defer wg.Done(); runQueueFull(seed) }()
	}
	for _, d := range []time.Duration{200 * time.Millisecond, 1000 * time.Millisecond, 1150 * time.Millisecond, 1300 * time.Millisecond, 1600 * time.Millisecond} {
		d := d
		wg.Add(1)
		go func() { defer wg.Done(); runReopen(d, false) }()
	}
	// the same with unequal RTT estimates (open finding): the opener has measured a small RTT, the acceptor has not
	wg.Add(1)
	go func() { defer wg.Done(); runReopen(400*time.Millisecond, true) }()
	wg.Add(1)
	go func() { defer wg.Done(); runReapDelay() }()
	wg.Add(2)
	go func() { defer wg.Done(); runReuse("data") }()
	go func() { defer wg.Done(); runReuse("req") }()
	wg.Wait()
}
