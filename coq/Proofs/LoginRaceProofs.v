(* LoginRaceProofs.v — proofs about Model/LoginRace.v: for every schedule of racing logins and
   grant additions every stored grant is in exactly one place (the map, or the hands of exactly
   one login), and a login only ever receives grants stored for exactly its user and key. *)
From Hop Require Import Base Authz ConcBase ConcUtil AuthzProofs GrantRaceProofs LoginRace.
From Coq Require Import Lia Arith Permutation.
Local Open Scope nat_scope.

Lemma flat_map_gupd {T B} (f : T -> list B) l i t t' : nth_error l i = Some t ->
  Permutation (flat_map f (gupd l i t') ++ f t) (flat_map f l ++ f t').
Proof.
  revert i; induction l as [|y r IH]; intros [|i] H; simpl in *; try discriminate.
  - inversion H; subst.
    eapply perm_trans; [apply Permutation_app_comm|]. rewrite <- app_assoc.
    apply Permutation_app_head. apply Permutation_app_comm.
  - rewrite <- !app_assoc. apply Permutation_app_head. apply IH, H.
Qed.

Lemma flat_map_gupd_same {T B} (f : T -> list B) l i t t' : nth_error l i = Some t -> f t' = f t ->
  flat_map f (gupd l i t') = flat_map f l.
Proof.
  revert i; induction l as [|y r IH]; intros [|i] H E; simpl in *; try discriminate.
  - inversion H; subst. rewrite E. reflexivity.
  - f_equal. apply IH; auto.
Qed.

Lemma map_fst_gupd {A B} (l : list (A * B)) i p c c' : nth_error l i = Some (p, c) ->
  map fst (gupd l i (p, c')) = map fst l.
Proof.
  revert i; induction l as [|y r IH]; intros [|i] H; simpl in *; try discriminate.
  - inversion H; subst. reflexivity.
  - f_equal. apply IH; auto.
Qed.

Lemma ag_lookup_in m x l : ag_lookup m x = Some l -> In (x, l) m.
Proof.
  induction m as [|[y l'] m IH]; simpl; intros H; [discriminate|].
  destruct (uk_eqb y x) eqn:E.
  - apply uk_eqb_eq in E. inversion H; subst. auto.
  - auto.
Qed.
Lemma ag_del_in m x e : In e (ag_del m x) -> In e m.
Proof.
  induction m as [|[y l'] m IH]; simpl; intros H; auto.
  destruct (uk_eqb y x); simpl in *; intuition.
Qed.
Lemma ag_add_in m x g y l : In (y, l) (ag_add m x g) ->
  In (y, l) m \/ (y = x /\ exists l0, l = l0 ++ [g] /\ (l0 = [] \/ In (x, l0) m)).
Proof.
  induction m as [|[z l'] m IH]; simpl; intros H.
  - destruct H as [H|[]]. inversion H; subst. right. split; auto. exists []. auto.
  - destruct (uk_eqb z x) eqn:E; simpl in H.
    + apply uk_eqb_eq in E; subst z. destruct H as [H|H]; auto.
      inversion H; subst. right. split; auto. exists l'. auto.
    + destruct H as [H|H]; auto. destruct (IH H) as [H1|(-> & l0 & -> & [->|H1])]; auto.
      * right. split; auto. exists []. auto.
      * right. split; auto. exists l0. auto.
Qed.

Section Race.
Variable progs : list lprog.

Definition origin_ok (x : lst) : Prop :=
  (forall i u k c g, nth_error (lths x) i = Some (LLogin u k, c) ->
                     In g (got_of (LLogin u k, c)) -> In (LAdd u k g) progs) /\
  (forall u k l g, In ((u, k), l) (l_map (lshd x)) -> In g l -> In (LAdd u k g) progs).

Definition LInv (x : lst) : Prop :=
  map fst (lths x) = progs /\
  Permutation (flat_map got_of (lths x) ++ map_grants (l_map (lshd x))) (flat_map stored_of (lths x)) /\
  origin_ok x.

Lemma linv_init : LInv (linit progs).
Proof.
  unfold LInv, linit, origin_ok; cbn [lths lshd l_map]. split; [|split; [|split]].
  - rewrite map_map. cbn [fst]. apply map_id.
  - induction progs as [|p r IH]; simpl; auto. destruct p; simpl; auto.
  - intros i u k c g H Hg. rewrite nth_error_map in H.
    destruct (nth_error progs i); simpl in H; inversion H; subst. destruct Hg.
  - intros u k l g [].
Qed.

Lemma prog_in x i p c : map fst (lths x) = progs -> nth_error (lths x) i = Some (p, c) -> In p progs.
Proof.
  intros <- H. change p with (fst (p, c)). apply in_map. eapply nth_error_In; eauto.
Qed.

Lemma linv_step x i x' : LInv x -> lstep x i = Some x' -> LInv x'.
Proof.
  intros (Hp & HP & Ho1 & Ho2) Hs. unfold lstep in Hs.
  destruct (nth_error (lths x) i) as [[p c]|] eqn:Hi; try discriminate.
  destruct (ltstep p (lshd x) c) as [[s' c']|] eqn:Ht; try discriminate.
  inversion Hs; subst x'; clear Hs.
  pose proof (prog_in x i p c Hp Hi) as Hin.
  assert (Hp' : map fst (gupd (lths x) i (p, c')) = progs) by (erewrite map_fst_gupd; eauto).
  assert (Hoth : forall j, j <> i -> nth_error (gupd (lths x) i (p, c')) j = nth_error (lths x) j)
    by (intros; apply nth_gupd_other; auto).
  assert (Hme : nth_error (gupd (lths x) i (p, c')) i = Some (p, c')) by (eapply nth_gupd_same; eauto).
  unfold LInv, origin_ok; cbn [lths lshd].
  destruct p as [u k|u k g]; destruct c; cbn [ltstep] in Ht; try discriminate.
  - (* RemoveAuthgrants *)
    destruct (ag_lookup (l_map (lshd x)) (u, k)) as [ags|] eqn:El; inversion Ht; subst s' c'; clear Ht;
      cbn [l_map].
    + split; [auto|]. split; [|split].
      * pose proof (flat_map_gupd got_of _ i _ (LLogin u k, LMid ags) Hi) as H1.
        cbn [got_of] in H1. rewrite app_nil_r in H1.
        rewrite (flat_map_gupd_same stored_of _ i _ (LLogin u k, LMid ags) Hi) by reflexivity.
        eapply perm_trans; [|exact HP].
        eapply perm_trans; [apply Permutation_app_tail, H1|].
        rewrite <- app_assoc. apply Permutation_app_head.
        apply Permutation_sym. apply (flat_ag_del _ _ _ El).
      * intros j u0 k0 c g Hj Hg. destruct (Nat.eq_dec j i) as [->|Hne].
        -- rewrite Hme in Hj. inversion Hj; subst. cbn [got_of] in Hg.
           eapply Ho2; [apply ag_lookup_in, El|exact Hg].
        -- rewrite Hoth in Hj by auto. eauto.
      * intros u0 k0 l g Hl Hg. apply ag_del_in in Hl. eauto.
    + split; [auto|]. split; [|split].
      * rewrite (flat_map_gupd_same got_of _ i _ (LLogin u k, LDone None) Hi) by reflexivity.
        rewrite (flat_map_gupd_same stored_of _ i _ (LLogin u k, LDone None) Hi) by reflexivity. exact HP.
      * intros j u0 k0 c g Hj Hg. destruct (Nat.eq_dec j i) as [->|Hne].
        -- rewrite Hme in Hj. inversion Hj; subst. destruct Hg.
        -- rewrite Hoth in Hj by auto. eauto.
      * exact Ho2.
  - (* RemoveKey *)
    inversion Ht; subst s' c'; clear Ht; cbn [l_map].
    split; [auto|]. split; [|split].
    + rewrite (flat_map_gupd_same got_of _ i _ (LLogin u k, LDone (Some got)) Hi) by reflexivity.
      rewrite (flat_map_gupd_same stored_of _ i _ (LLogin u k, LDone (Some got)) Hi) by reflexivity. exact HP.
    + intros j u0 k0 c g Hj Hg. destruct (Nat.eq_dec j i) as [->|Hne].
      * rewrite Hme in Hj. inversion Hj; subst. cbn [got_of] in Hg. eapply (Ho1 i); eauto.
      * rewrite Hoth in Hj by auto. eauto.
    + exact Ho2.
  - (* agMap.AddAuthGrant *)
    inversion Ht; subst s' c'; clear Ht; cbn [l_map].
    split; [auto|]. split; [|split].
    + rewrite (flat_map_gupd_same got_of _ i _ (LAdd u k g, LAddMid) Hi) by reflexivity.
      pose proof (flat_map_gupd stored_of _ i _ (LAdd u k g, LAddMid) Hi) as H1.
      cbn [stored_of] in H1. rewrite app_nil_r in H1.
      eapply perm_trans; [|apply Permutation_sym, H1].
      eapply perm_trans; [apply Permutation_app_head, (flat_ag_add _ _ g)|].
      eapply perm_trans; [apply Permutation_sym, Permutation_middle|].
      eapply perm_trans; [apply perm_skip, HP|]. apply Permutation_cons_append.
    + intros j u0 k0 c g0 Hj Hg. destruct (Nat.eq_dec j i) as [->|Hne].
      * rewrite Hme in Hj. inversion Hj.
      * rewrite Hoth in Hj by auto. eauto.
    + intros u0 k0 l g0 Hl Hg. apply ag_add_in in Hl.
      destruct Hl as [Hl|(He & l0 & -> & Hl0)]; [eauto|]. inversion He; subst u0 k0.
      apply in_app_or in Hg. destruct Hg as [Hg|[<-|[]]]; auto.
      destruct Hl0 as [->|Hl0]; [destruct Hg|eauto].
  - (* AddKey *)
    inversion Ht; subst s' c'; clear Ht; cbn [l_map].
    split; [auto|]. split; [|split].
    + rewrite (flat_map_gupd_same got_of _ i _ (LAdd u k g, LDone None) Hi) by reflexivity.
      rewrite (flat_map_gupd_same stored_of _ i _ (LAdd u k g, LDone None) Hi) by reflexivity. exact HP.
    + intros j u0 k0 c g0 Hj Hg. destruct (Nat.eq_dec j i) as [->|Hne].
      * rewrite Hme in Hj. inversion Hj.
      * rewrite Hoth in Hj by auto. eauto.
    + exact Ho2.
Qed.

Lemma linv_run l : forall x x', LInv x -> lrun x l = Some x' -> LInv x'.
Proof.
  induction l as [|i l IH]; intros x x' HI H; simpl in H.
  - inversion H; subst; auto.
  - destruct (lstep x i) as [x1|] eqn:Hs; try discriminate.
    eapply IH; [eapply linv_step; eauto|exact H].
Qed.

Lemma linv_reachable x : lreachable progs x -> LInv x.
Proof. intros (l & H). eapply linv_run; [apply linv_init|exact H]. Qed.

End Race.

(* stored grants are some of the programs' grants, without repetition *)
Lemma stored_incl ths g : In g (flat_map stored_of ths) -> In g (flat_map adds_of (map fst ths)).
Proof.
  induction ths as [|[p c] r IH]; simpl; intros H; auto.
  apply in_app_or in H. apply in_or_app. destruct H as [H|H]; auto.
  left. destruct p, c; simpl in *; auto; contradiction.
Qed.

Lemma NoDup_app_right {A} (l1 l2 : list A) : NoDup (l1 ++ l2) -> NoDup l2.
Proof. induction l1; simpl; intros H; auto. inversion H; auto. Qed.

Lemma stored_nodup {B} (f : grant -> B) ths :
  NoDup (map f (flat_map adds_of (map fst ths))) -> NoDup (map f (flat_map stored_of ths)).
Proof.
  induction ths as [|[p c] r IH]; simpl; intros H; [constructor|].
  rewrite map_app in *.
  assert (Hr : NoDup (map f (flat_map stored_of r))) by (apply IH; eapply NoDup_app_right; eauto).
  destruct p as [u k|u k g]; [destruct c; simpl; auto|].
  cbn [adds_of fst map app] in H. inversion H; subst.
  destruct c; simpl; auto; constructor; auto; intros Hin; apply H2;
    apply in_map_iff in Hin; destruct Hin as (g' & <- & Hin); apply in_map, stored_incl, Hin.
Qed.

Lemma login_key_bound progs x i u k c g : lreachable progs x ->
  nth_error (lths x) i = Some (LLogin u k, c) -> In g (got_of (LLogin u k, c)) ->
  In (LAdd u k g) progs.
Proof. intros Hr. destruct (linv_reachable progs x Hr) as (_ & _ & Ho1 & _). apply Ho1. Qed.

Lemma map_key_bound progs x u k l g : lreachable progs x ->
  ag_lookup (l_map (lshd x)) (u, k) = Some l -> In g l -> In (LAdd u k g) progs.
Proof.
  intros Hr Hl. destruct (linv_reachable progs x Hr) as (_ & _ & _ & Ho2).
  eapply Ho2. apply ag_lookup_in, Hl.
Qed.

Lemma login_exclusive progs x : lreachable progs x ->
  NoDup (map g_id (flat_map adds_of progs)) ->
  NoDup (map g_id (flat_map got_of (lths x) ++ map_grants (l_map (lshd x)))).
Proof.
  intros Hr Hnd. destruct (linv_reachable progs x Hr) as (Hp & HP & _).
  eapply Permutation_NoDup; [apply Permutation_map, Permutation_sym, HP|].
  apply stored_nodup. rewrite Hp. exact Hnd.
Qed.

(* two different logins never hold the same grant *)
Lemma flat_map_nodup_disjoint {T B C} (f : T -> list B) (h : B -> C) l :
  NoDup (map h (flat_map f l)) ->
  forall i j ti tj a b, i <> j -> nth_error l i = Some ti -> nth_error l j = Some tj ->
    In a (f ti) -> In b (f tj) -> h a <> h b.
Proof.
  induction l as [|y r IH]; intros Hnd i j ti tj a b Hne Hi Hj Ha Hb; [destruct i; discriminate|].
  simpl in Hnd. rewrite map_app in Hnd.
  assert (Hcross : forall n tn a' b', nth_error r n = Some tn -> In a' (f y) -> In b' (f tn) -> h a' <> h b').
  { intros n tn a' b' Hn Ha' Hb' E.
    eapply (NoDup_app_disj (map h (f y)) (map h (flat_map f r)) (h a')); eauto.
    - apply in_map, Ha'.
    - rewrite E. apply in_map. apply in_flat_map. exists tn. split; auto. eapply nth_error_In; eauto. }
  destruct i as [|i], j as [|j]; simpl in Hi, Hj; try congruence.
  - inversion Hi; subst. eapply Hcross; eauto.
  - inversion Hj; subst. intros E. symmetry in E. revert E. eapply Hcross; eauto.
  - apply (IH (NoDup_app_right _ _ Hnd) i j ti tj a b); auto.
Qed.

Lemma login_pairwise_disjoint progs x i j ti tj a b : lreachable progs x ->
  NoDup (map g_id (flat_map adds_of progs)) -> i <> j ->
  nth_error (lths x) i = Some ti -> nth_error (lths x) j = Some tj ->
  In a (got_of ti) -> In b (got_of tj) -> g_id a <> g_id b.
Proof.
  intros Hr Hnd Hne Hi Hj Ha Hb.
  pose proof (login_exclusive progs x Hr Hnd) as H. rewrite map_app in H.
  apply NoDup_app_left in H.
  eapply (flat_map_nodup_disjoint got_of g_id); eauto.
Qed.
