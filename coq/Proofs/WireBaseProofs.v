(* Lemmas about Model/WireBase.v: lists and lengths in N, big-endian helpers, the decoder monad,
   the primitive readers, common.WriteString/ReadString, and the generic derivation of
   re-encode stability from the three per-format laws. *)
From Hop Require Import Base WireBase.
From Coq Require Import ZifyN ZifyNat ZifyBool.
Ltac Zify.zify_post_hook ::= Z.div_mod_to_equations.
Open Scope N_scope.

(* ---------- lists ---------- *)
Lemma len_nil : len [] = 0.
Proof. reflexivity. Qed.
Lemma len_cons x l : len (x :: l) = 1 + len l.
Proof. unfold len. cbn [Datatypes.length]. rewrite Nat2N.inj_succ. lia. Qed.
Lemma len_app a b : len (a ++ b) = len a + len b.
Proof. unfold len. rewrite app_length, Nat2N.inj_add. reflexivity. Qed.
Lemma len_0_nil l : len l = 0 -> l = [].
Proof. destruct l; [reflexivity|]. rewrite len_cons. lia. Qed.

Lemma take_app a b : take (len a) (a ++ b) = a.
Proof.
  unfold take, len. rewrite Nat2N.id, firstn_app, Nat.sub_diag, firstn_all. cbn. apply app_nil_r.
Qed.
Lemma drop_app a b : drop (len a) (a ++ b) = b.
Proof.
  unfold drop, len. rewrite Nat2N.id, skipn_app, Nat.sub_diag, skipn_all. reflexivity.
Qed.
Lemma take_drop k l : take k l ++ drop k l = l.
Proof. apply firstn_skipn. Qed.
Lemma len_take k l : k <= len l -> len (take k l) = k.
Proof. unfold take, len. intros H. rewrite firstn_length. lia. Qed.
Lemma len_take_le k l : len (take k l) <= k.
Proof. unfold take, len. rewrite firstn_length. lia. Qed.
Lemma len_drop k l : len (drop k l) = len l - k.
Proof. unfold drop, len. rewrite skipn_length. lia. Qed.
Lemma take_all l k : len l <= k -> take k l = l.
Proof. unfold take, len. intros. apply firstn_all2. lia. Qed.

Lemma wf_app a b : wf_bytes (a ++ b) = wf_bytes a && wf_bytes b.
Proof. apply forallb_app. Qed.
Lemma wf_take k l : wf_bytes l = true -> wf_bytes (take k l) = true.
Proof.
  intros H. rewrite <- (take_drop k l), wf_app in H. apply andb_prop in H. tauto.
Qed.
Lemma wf_drop k l : wf_bytes l = true -> wf_bytes (drop k l) = true.
Proof.
  intros H. rewrite <- (take_drop k l), wf_app in H. apply andb_prop in H. tauto.
Qed.
Lemma wf_cons x l : wf_bytes (x :: l) = (x <? 256) && wf_bytes l.
Proof. reflexivity. Qed.
Lemma wf_hd l : wf_bytes l = true -> byte1 l < 256.
Proof.
  destruct l; cbn; [lia|]. unfold wf_byte. intros H. apply andb_prop in H. lia.
Qed.
Lemma wf_zeros k : wf_bytes (zeros k) = true.
Proof. unfold zeros. induction (N.to_nat k); cbn; auto. Qed.
Lemma len_zeros k : len (zeros k) = k.
Proof. unfold zeros, len. rewrite repeat_length. lia. Qed.

Lemma beq_bytes_refl a : beq_bytes a a = true.
Proof. induction a; cbn; [reflexivity|]. rewrite N.eqb_refl. exact IHa. Qed.
Lemma beq_bytes_eq a b : beq_bytes a b = true -> a = b.
Proof.
  revert b. induction a; destruct b; cbn; try discriminate; auto.
  intros H. apply andb_prop in H. destruct H as [H1 H2]. apply N.eqb_eq in H1. f_equal; auto.
Qed.

(* ---------- big endian ---------- *)
Lemma len_be_enc k n : len (be_enc k n) = N.of_nat k.
Proof.
  unfold len. f_equal. revert n. induction k; intros; cbn [be_enc Datatypes.length]; [reflexivity|]. f_equal. apply IHk.
Qed.
Lemma wf_be_enc k n : wf_bytes (be_enc k n) = true.
Proof.
  induction k; cbn [be_enc]; [reflexivity|]. rewrite wf_cons, IHk.
  assert ((n / 256 ^ N.of_nat k) mod 256 < 256) by (apply N.mod_lt; lia).
  destruct (_ <? 256) eqn:E; [reflexivity|lia].
Qed.

Lemma be_dec_fold l acc :
  fold_left (fun a b => a * 256 + b) l acc = acc * 256 ^ len l + be_dec l.
Proof.
  unfold be_dec. revert acc. induction l as [|x l IH]; intros acc.
  - change (len []) with 0. cbn [fold_left]. rewrite N.pow_0_r. lia.
  - cbn [fold_left]. rewrite (IH (acc * 256 + x)), (IH (0 * 256 + x)), len_cons.
    rewrite N.pow_add_r, N.pow_1_r. ring.
Qed.
Lemma be_dec_cons x l : be_dec (x :: l) = x * 256 ^ len l + be_dec l.
Proof. unfold be_dec at 1. cbn [fold_left]. rewrite be_dec_fold. lia. Qed.
Lemma be_dec_nil : be_dec [] = 0.
Proof. reflexivity. Qed.

Lemma be_dec_bound l : wf_bytes l = true -> be_dec l < 256 ^ len l.
Proof.
  induction l as [|x l IH]; intros H.
  - cbn. lia.
  - rewrite wf_cons in H. apply andb_prop in H. destruct H as [Hx Hl].
    rewrite be_dec_cons, len_cons, N.pow_add_r, N.pow_1_r. specialize (IH Hl).
    apply N.ltb_lt in Hx. revert IH. generalize (256 ^ len l) (be_dec l). intros P d IH. nia.
Qed.

Lemma be_dec_enc_mod k n : be_dec (be_enc k n) = n mod 256 ^ N.of_nat k.
Proof.
  induction k.
  - cbn. rewrite N.mod_1_r. reflexivity.
  - cbn [be_enc]. rewrite be_dec_cons, len_be_enc, IHk.
    rewrite Nat2N.inj_succ, N.pow_succ_r'.
    rewrite (N.mul_comm 256), N.mod_mul_r by (try apply N.pow_nonzero; lia). lia.
Qed.
Lemma be_dec_enc k n : n < 256 ^ N.of_nat k -> be_dec (be_enc k n) = n.
Proof. intros. rewrite be_dec_enc_mod. apply N.mod_small. assumption. Qed.

(* ---------- the monad ---------- *)
Lemma val_bind {A B} (m : M A) (f : A -> M B) s :
  val (bindM m f) s = match val m s with Ok (a, s') => val (f a) s' | Err => Err | Panic => Panic end.
Proof. unfold val, bindM. destruct (m s) as [[[a s']| |] n]; reflexivity. Qed.
Lemma cost_bind {A B} (m : M A) (f : A -> M B) s :
  cost (bindM m f) s = cost m s + match val m s with Ok (a, s') => cost (f a) s' | _ => 0 end.
Proof. unfold cost, val, bindM. destruct (m s) as [[[a s']| |] n]; cbn; lia. Qed.
Lemma val_ret {A} (a : A) s : val (retM a) s = Ok (a, s).
Proof. reflexivity. Qed.
Lemma cost_ret {A} (a : A) s : cost (retM a) s = 0.
Proof. reflexivity. Qed.
Lemma val_fail {A} s : val (@failM A) s = Err.
Proof. reflexivity. Qed.
Lemma cost_fail {A} s : cost (@failM A) s = 0.
Proof. reflexivity. Qed.
Lemma val_alloc n s : val (allocM n) s = Ok (tt, s).
Proof. reflexivity. Qed.
Lemma cost_alloc n s : cost (allocM n) s = n.
Proof. reflexivity. Qed.

(* all three strict readers have the outcome of read_full *)
Lemma val_read_fixed k s : val (read_fixed k) s = val (read_full k) s.
Proof. unfold read_fixed. rewrite val_bind, val_alloc. reflexivity. Qed.
Lemma val_copy_n k s : val (copy_n k) s = val (read_full k) s.
Proof. unfold val, copy_n, read_full. destruct (k <=? len s); reflexivity. Qed.

Lemma val_read_full_app a s : val (read_full (len a)) (a ++ s) = Ok (a, s).
Proof.
  unfold val, read_full. rewrite len_app.
  replace (len a <=? len a + len s) with true by lia. cbn. rewrite take_app, drop_app. reflexivity.
Qed.
Lemma val_read_full_inv k s a r :
  val (read_full k) s = Ok (a, r) -> s = a ++ r /\ len a = k /\ a = take k s /\ r = drop k s.
Proof.
  unfold val, read_full. destruct (k <=? len s) eqn:E; cbn; [|discriminate].
  apply N.leb_le in E. intros H. injection H as <- <-. rewrite take_drop, len_take by exact E. auto.
Qed.
Lemma val_read_full_err k s : val (read_full k) s <> Panic.
Proof. unfold val, read_full. destruct (k <=? len s); cbn; discriminate. Qed.
Lemma val_read_full_ok k s : k <= len s -> val (read_full k) s = Ok (take k s, drop k s).
Proof. intros. unfold val, read_full. replace (k <=? len s) with true by lia. reflexivity. Qed.
Lemma val_read_full_short k s : len s < k -> val (read_full k) s = Err.
Proof. intros. unfold val, read_full. replace (k <=? len s) with false by lia. reflexivity. Qed.

Lemma cost_read_full k s : cost (read_full k) s = 0.
Proof. unfold cost, read_full. destruct (k <=? len s); reflexivity. Qed.
Lemma cost_read_fixed k s : cost (read_fixed k) s = k.
Proof.
  unfold read_fixed. rewrite cost_bind, cost_alloc, val_alloc, cost_read_full. lia.
Qed.
Lemma cost_copy_n k s : cost (copy_n k) s <= copy_buf + len s.
Proof. unfold cost, copy_n. destruct (N.leb_spec k (len s)); cbn [snd]; lia. Qed.
Lemma cost_copy_n_ok k s : k <= len s -> cost (copy_n k) s <= copy_buf + k.
Proof. intros. unfold cost, copy_n. destruct (N.leb_spec k (len s)); cbn [snd]; lia. Qed.

Lemma val_read_lenient k s : val (read_full_lenient k) s = Ok (take k s ++ zeros (k - len s), drop k s).
Proof. reflexivity. Qed.
Lemma cost_read_lenient k s : cost (read_full_lenient k) s = 0.
Proof. reflexivity. Qed.

(* decoders never make the stream longer; strict readers return a suffix *)
Definition shrinks {A} (m : M A) : Prop :=
  forall s a r, val m s = Ok (a, r) -> exists p, s = p ++ r.

(* ---------- app_res ---------- *)
Lemma app_res_ok a b c :
  app_res a b = Ok c -> exists x y, a = Ok x /\ b = Ok y /\ c = x ++ y.
Proof.
  unfold app_res. destruct a as [x| |]; cbn; try discriminate.
  destruct b as [y| |]; cbn; try discriminate. intros H. injection H as <-. eauto.
Qed.
Lemma app_res_Ok x y : app_res (Ok x) (Ok y) = Ok (x ++ y).
Proof. reflexivity. Qed.
Lemma app_res_no_panic a b : a <> Panic -> b <> Panic -> app_res a b <> Panic.
Proof. unfold app_res. destruct a, b; cbn; congruence. Qed.

(* ---------- WriteString / ReadString ---------- *)
Lemma enc_wstring_ok s b : enc_wstring s = Ok b -> len s <= 255 /\ b = len s :: s.
Proof.
  unfold enc_wstring. destruct (255 <? len s) eqn:E; [discriminate|]. intros H. injection H as <-. split; [lia|reflexivity].
Qed.

Lemma wstring_roundtrip s b rest :
  enc_wstring s = Ok b -> val dec_wstring (b ++ rest) = Ok (s, rest).
Proof.
  intros H. apply enc_wstring_ok in H. destruct H as [Hl ->].
  unfold dec_wstring. rewrite val_bind, val_read_fixed.
  change ((len s :: s) ++ rest) with ([len s] ++ (s ++ rest)).
  change 1 with (len [len s]). rewrite val_read_full_app.
  cbn [byte1 hd]. rewrite val_copy_n. apply val_read_full_app.
Qed.

Lemma wstring_dec_sound s v r :
  val dec_wstring s = Ok (v, r) -> wf_bytes s = true ->
  wf_bytes v = true /\ len v <= 255 /\ wf_bytes r = true /\ exists p, s = p ++ r /\ len p = 1 + len v.
Proof.
  unfold dec_wstring. rewrite val_bind, val_read_fixed.
  destruct (val (read_full 1) s) as [[l s1]| |] eqn:E1; try discriminate.
  apply val_read_full_inv in E1. destruct E1 as (-> & Hl & _ & _).
  rewrite val_copy_n. intros H Hwf. apply val_read_full_inv in H. destruct H as (-> & Hv & _ & _).
  rewrite !wf_app in Hwf. apply andb_prop in Hwf. destruct Hwf as [Hw1 Hw2]. apply andb_prop in Hw2. destruct Hw2 as [Hw2 Hw3].
  pose proof (wf_hd _ Hw1). repeat split; auto; [lia|].
  exists (l ++ v). rewrite <- app_assoc, len_app. split; [reflexivity|lia].
Qed.

Lemma enc_wstring_complete s : len s <= 255 -> exists b, enc_wstring s = Ok b.
Proof. intros. unfold enc_wstring. replace (255 <? len s) with false by lia. eauto. Qed.

Lemma enc_wstring_no_panic s : enc_wstring s <> Panic.
Proof. unfold enc_wstring. destruct (255 <? len s); discriminate. Qed.

Lemma dec_wstring_no_panic s : val dec_wstring s <> Panic.
Proof.
  unfold dec_wstring. rewrite val_bind, val_read_fixed.
  destruct (val (read_full 1) s) as [[l s1]| |] eqn:E; try discriminate.
  - rewrite val_copy_n. apply val_read_full_err.
  - exfalso. eapply val_read_full_err; eauto.
Qed.

(* allocation: at most the 1-byte length buffer, the copy buffer and the bytes received *)
Lemma dec_wstring_cost s : cost dec_wstring s <= 1 + copy_buf + len s.
Proof.
  unfold dec_wstring. rewrite cost_bind, cost_read_fixed, val_read_fixed.
  destruct (val (read_full 1) s) as [[l s1]| |] eqn:E; try lia.
  apply val_read_full_inv in E. destruct E as (-> & Hl & _ & _).
  pose proof (cost_copy_n (byte1 l) s1). rewrite len_app. lia.
Qed.

(* ---------- stability from the three laws ---------- *)
Section Laws.
  Context {A : Type} (enc : A -> res bytes) (dec : M A) (wt repr : A -> bool) (norm : A -> A).
  (* R: what the encoder accepts decodes to the (normalised) value, the rest is left unread *)
  Definition law_roundtrip := forall v b rest, enc v = Ok b -> wt v = true -> val dec (b ++ rest) = Ok (norm v, rest).
  (* D: what the decoder returns is well typed, representable and normalised *)
  Definition law_dec_sound := forall s v r, val dec s = Ok (v, r) -> wf_bytes s = true ->
                                             wt v = true /\ repr v = true /\ norm v = v.
  (* E: representable well-typed values are accepted *)
  Definition law_enc_complete := forall v, wt v = true -> repr v = true -> exists b, enc v = Ok b.

  Lemma stable_from_laws :
    law_roundtrip -> law_dec_sound -> law_enc_complete ->
    forall s v r, val dec s = Ok (v, r) -> wf_bytes s = true ->
      exists b, enc v = Ok b /\ forall r', val dec (b ++ r') = Ok (v, r').
  Proof.
    intros R D E s v r H Hwf. destruct (D _ _ _ H Hwf) as (Hwt & Hrep & Hn).
    destruct (E v Hwt Hrep) as [b Hb]. exists b. split; [exact Hb|].
    intros r'. rewrite (R _ _ r' Hb Hwt), Hn. reflexivity.
  Qed.
End Laws.
