(* Correspondence entry points for C11: the decoders of C18 on arbitrary peer bytes, with the
   real heap allocation compared against the model's ghost counter, and sender.recvAck. *)
From Hop Require Export WireCorr.
Open Scope N_scope.

(* observed TotalAlloc delta of the real decoder <= 64 * ghost counter + 16 KiB.  The ghost
   counter records requested buffer sizes only; the real allocator adds a few hundred bytes per
   reader call (reader objects, builders and their growth, error values, log entries), hence the
   generous factor: the comparison catches allocations of a different order of magnitude than the
   model predicts, the hard bound is the driver's oracle (16*|input| + 256 KiB). *)
Definition alloc_ok {A} (m : M A) (b : bytes) (observed : N) : bool := observed <=? 64 * cost m b + 16384.

Definition c11_dec_wstring (c : bytes * N * bytes * N * N) :=
  let '(b, code, v, r, al) := c in c18_dec_wstring (b, code, v, r) && alloc_ok dec_wstring b al.
Definition c11_dec_intent (c : bytes * N * intent * N * N) :=
  let '(b, code, v, r, al) := c in c18_dec_intent (b, code, v, r) && alloc_ok dec_intent b al.
Definition c11_dec_ag (c : bytes * N * agmsg * N * N) :=
  let '(b, code, v, r, al) := c in c18_dec_ag (b, code, v, r) && alloc_ok dec_ag b al.
Definition c11_dec_confden (c : bytes * N * agmsg * N * N) :=
  let '(b, code, v, r, al) := c in c18_dec_confden (b, code, v, r) && alloc_ok dec_conf_or_denial b al.
Definition c11_dec_proxy (c : bytes * N * option bytes * N * N) :=
  let '(b, code, v, r, al) := c in c18_dec_proxy (b, code, v, r) && alloc_ok dec_proxy_resp b al.
Definition c11_dec_exec (c : bytes * N * execmsg * N * N) :=
  let '(b, code, v, r, al) := c in c18_dec_exec (b, code, v, r) && alloc_ok dec_exec b al.
Definition c11_dec_userauth (c : bytes * N * bytes * N * N) :=
  let '(b, code, v, r, al) := c in c18_dec_userauth (b, code, v, r) && alloc_ok dec_userauth b al.
Definition c11_dec_pf (c : bytes * N * pfreq * N * bool * N) :=
  let '(b, code, v, r, ok, al) := c in c18_dec_pf (b, code, v, r, ok) && alloc_ok (dec_pf ok) b al.
Definition c11_dec_relmsg (c : bytes * N * bytes * N * N) :=
  let '(b, code, v, r, al) := c in c18_dec_relmsg (b, code, v, r) && alloc_ok dec_relmsg b al.
Definition c11_dec_cert (c : bytes * N * cert * N * N) :=
  let '(b, code, v, r, al) := c in c18_dec_cert (b, code, v, r) && alloc_ok dec_cert b al.

(* sender.recvAck from an arbitrary sender state:
   (ackNo, buffered frames, window, duplicate-ack counter, ack, code, ackNo after, frames after) *)
Definition c11_recv_ack (c : N * N * N * Z * N * N * N * N) : bool :=
  let '(ackno, frames, window, dup, ack, code, newack, remaining) := c in
  match recv_ack (Ss ackno frames window dup) ack with
  | Ok (a, f) => (code =? 0) && (a =? newack) && (f =? remaining)
  | Err => code =? 1
  | Panic => code =? 2
  end.

(* extension round *)
Definition c11_dec_status (c : bytes * N * option bytes * N * N) :=
  let '(b, code, v, r, al) := c in c18_dec_status (b, code, v, r) && alloc_ok dec_status b al.
Definition c11_dec_winsize (c : bytes * N * winsize * N * N) :=
  let '(b, code, v, r, al) := c in c18_dec_winsize (b, code, v, r) && alloc_ok dec_ws b al.
Definition c11_dec_winloop (c : bytes * N * winsize * N * N) :=
  let '(b, code, v, r, al) := c in c18_dec_winloop (b, code, v, r) && alloc_ok handle_size b al.
Definition c11_dec_uareply (c : bytes * N * bool * N * N) :=
  let '(b, code, v, r, al) := c in c18_dec_uareply (b, code, v, r) && alloc_ok dec_ua_reply b al.
Definition c11_dec_proxyid (c : bytes * N * N * N * N) :=
  let '(b, code, v, r, al) := c in c18_dec_proxyid (b, code, v, r) && alloc_ok dec_proxy_id b al.
Definition c11_dec_intentreq (c : bytes * N * agmsg * N * N) :=
  let '(b, code, v, r, al) := c in c18_dec_intentreq (b, code, v, r) && alloc_ok dec_intent_request b al.
Definition c11_dec_intentcomm (c : bytes * N * agmsg * N * N) :=
  let '(b, code, v, r, al) := c in c18_dec_intentcomm (b, code, v, r) && alloc_ok dec_intent_comm b al.
