package main

// Running the real authgrants.StartPrincipalInstance / StartTargetInstance over net.Pipe connections
// with scripted callbacks, and recording, from inside the instance's own goroutine (callbacks and
// net.Conn wrappers), the totally ordered sequence of what it did.

import (
	"bytes"
	"errors"
	"net"
	"sync"
	"sync/atomic"
	"time"

	"hop.computer/hop/authgrants"
	"hop.computer/hop/certs"
	"hop.computer/hop/core"
)

const stepTimeout = 2 * time.Second

var hangs int32 // histories on which an instance hung; generation stops after a few (each costs stepTimeout)

// ---- scripts

type setupMode int

const (
	setupEarlyFail setupMode = iota // fails before the handshake reaches certificate verification (config, dial, bad cert)
	setupCb                         // handshake reaches the verification callback; success iff callback ok and postOK
)

type replyMode int

const (
	rConfirm replyMode = iota
	rDeny
	rGarbageUnknown // an unknown message type byte
	rGarbageEcho    // echoes the intent communication back (a well-formed message of the wrong type)
	rCloseAfterRead // reads the communication, closes without answering
	rTruncDeny      // starts a denial, closes in the middle of it
	rWriteFail      // the connection is already closed when the principal writes
)

func (m replyMode) String() string {
	return [...]string{"confirm", "deny", "garbage-unknown-type", "garbage-echo", "close-after-read", "truncated-denial", "write-fails"}[m]
}
func (m replyMode) coq() string { return [...]string{"TC", "TD", "TG", "TG", "TR", "TR", "TW"}[m] }

type preq struct {
	in      wi
	approve bool
	setup   setupMode
	certID  int  // certificate the target presents in this setup (>=1)
	postOK  bool // rest of the setup (user authorisation, tube creation) succeeds
	reply   replyMode
	// text of every refusal in this request: the error of the approval callback, the reason in the scripted
	// target's Intent Denied (at most 255 bytes fit its one-byte length), e2e: the errors of the target's callbacks
	reason string
	delay  time.Duration // slow-target class: the scripted target waits this long before it answers / closes
	// e2e only: scripted target-side callbacks
	tcheck, tadd bool
}

// ---- event log

type evKind int

const (
	evSetup evKind = iota
	evCb
	evTW // principal writes on the target connection
	evDW // principal writes on the delegate connection
	evTCheck
	evTAdd
	evTR      // target instance writes on the principal connection
	evPeerAct // the scripted target is about to answer (or to close instead of answering) a communication it read
)

type event struct {
	kind   evKind
	in     wi
	cert   int // 0 = nil pointer, -1 = unknown pointer
	ok     bool
	data   []byte
	failed bool
	urlok  bool
}

type evlog struct {
	mu  sync.Mutex
	evs []event
}

func (l *evlog) add(e event) int {
	l.mu.Lock()
	defer l.mu.Unlock()
	l.evs = append(l.evs, e)
	return len(l.evs) - 1
}
func (l *evlog) fail(i int) { l.mu.Lock(); l.evs[i].failed = true; l.mu.Unlock() }
func (l *evlog) snapshot() []event {
	l.mu.Lock()
	defer l.mu.Unlock()
	return append([]event{}, l.evs...)
}

type recConn struct {
	net.Conn
	lg          *evlog
	kind        evKind
	beforeWrite func()
}

func (c *recConn) Write(b []byte) (int, error) {
	if len(b) == 0 {
		// net.Pipe blocks a zero-length Write until the peer's next Read (an artefact of the in-memory
		// pipe, e.g. for an empty command string at the end of a message); it carries no data
		return 0, nil
	}
	if c.beforeWrite != nil {
		c.beforeWrite()
	}
	idx := c.lg.add(event{kind: c.kind, data: append([]byte{}, b...)})
	n, err := c.Conn.Write(b)
	if err != nil {
		c.lg.fail(idx)
	}
	return n, err
}

// principal's end of the delegate connection: additionally tells the driver when the principal asks
// for more input while everything offered so far has been consumed (= it finished the last request)
type delConn struct {
	recConn
	consumed int64
	offered  *int64
	idle     chan int64
}

func newIdleConn(c net.Conn, lg *evlog, kind evKind, offered *int64) *delConn {
	return &delConn{recConn: recConn{Conn: c, lg: lg, kind: kind}, offered: offered, idle: make(chan int64, 256)}
}

// waitIdle waits until the instance asks for input having consumed `want` bytes (0), or it returned (2), or time is up (1)
func (c *delConn) waitIdle(want int64, done chan struct{}, tmo time.Duration) int {
	t := time.NewTimer(tmo)
	defer t.Stop()
	for {
		select {
		case v := <-c.idle:
			if v == want {
				return 0
			}
		case <-done:
			return 2
		case <-t.C:
			return 1
		}
	}
}

// offer writes msg to the peer end of the instance's connection (0 ok, 1 timeout, 2 write error)
func offer(peer net.Conn, offered *int64, msg []byte) int {
	atomic.AddInt64(offered, int64(len(msg)))
	wdone := make(chan error, 1)
	go func() { _, err := peer.Write(msg); wdone <- err }()
	select {
	case err := <-wdone:
		if err != nil {
			return 2
		}
		return 0
	case <-time.After(stepTimeout):
		return 1
	}
}

// drain keeps reading everything the instance writes, so that it never blocks on a write
type drain struct {
	mu  sync.Mutex
	buf []byte
}

func (d *drain) run(c net.Conn) {
	b := make([]byte, 4096)
	for {
		n, err := c.Read(b)
		d.mu.Lock()
		d.buf = append(d.buf, b[:n]...)
		d.mu.Unlock()
		if err != nil {
			return
		}
	}
}
func (d *drain) waitLen(n int) []byte {
	for i := 0; i < 200; i++ {
		d.mu.Lock()
		l := len(d.buf)
		d.mu.Unlock()
		if l >= n {
			break
		}
		time.Sleep(time.Millisecond)
	}
	d.mu.Lock()
	defer d.mu.Unlock()
	return append([]byte{}, d.buf...)
}

func (c *delConn) Read(b []byte) (int, error) {
	if cv := atomic.LoadInt64(&c.consumed); cv == atomic.LoadInt64(c.offered) {
		select {
		case c.idle <- cv:
		default:
		}
	}
	n, err := c.Conn.Read(b)
	atomic.AddInt64(&c.consumed, int64(n))
	return n, err
}

// ---- principal run

type prun struct {
	perReq   [][]event // events of each request, in order
	abnormal int       // 0 normal, 1 hung, 2 principal returned early
	dlgBytes []byte    // everything the delegate end received
	peerGot  map[int]wi
	peerSent map[int]replyMode
	stored   []wi // e2e: grants the target's addAuthGrant accepted
}

func targetCert(id int) *certs.Certificate {
	return &certs.Certificate{Version: 1, Type: certs.Leaf, IDChunk: certs.IDChunk{Blocks: []certs.Name{certs.DNSName("target")}}, Parent: certs.SHA3Fingerprint{byte(id)}}
}

// runPrincipal runs one history through the real principal instance. e2e: the target side is the real
// StartTargetInstance with scripted checkIntent/addAuthGrant instead of a scripted peer.
// tcp: the target connection is a TCP loopback connection (buffered, honours deadlines) instead of a net.Pipe,
// and the scripted target tells requests apart by their (pairwise distinct) intents.
func runPrincipal(reqs []preq, e2e bool, tcp bool) *prun {
	res := &prun{peerGot: map[int]wi{}, peerSent: map[int]replyMode{}}
	lg := &evlog{}
	var cur int32 // index of the request being processed
	var pmu sync.Mutex
	certIDs := map[*certs.Certificate]int{}
	var closers []net.Conn
	var cmu sync.Mutex
	addCloser := func(c net.Conn) { cmu.Lock(); closers = append(closers, c); cmu.Unlock() }

	dP, dD := net.Pipe()
	addCloser(dP)
	addCloser(dD)
	var offered int64
	dc := newIdleConn(dP, lg, evDW, &offered)
	dr := &drain{}
	go dr.run(dD) // delegate end: always draining

	ci := func(i authgrants.Intent, c *certs.Certificate) error {
		k := int(atomic.LoadInt32(&cur))
		id := 0
		if c != nil {
			pmu.Lock()
			v, ok := certIDs[c]
			pmu.Unlock()
			id = -1
			if ok {
				id = v
			}
		}
		ok := reqs[k].approve
		lg.add(event{kind: evCb, in: fromIntent(&i), cert: id, ok: ok})
		if !ok {
			return errors.New(reqs[k].reason)
		}
		return nil
	}

	principalCert := targetCert(200) // e2e: the certificate the target saw the principal present

	// behaves like hopclient.setupTargetClient + newAuthgrantTube: config/dial errors come first; the
	// handshake then runs the additional verification callback on the target's leaf certificate and
	// fails when the callback does; user authorisation / tube creation may still fail afterwards.
	su := func(u core.URL, vc authgrants.AdditionalVerifyCallback) (net.Conn, error) {
		k := int(atomic.LoadInt32(&cur))
		rq := reqs[k]
		want := core.URL{User: rq.in.user, Host: string(rq.in.sniLabel), Port: itoa(int(rq.in.port))}
		lg.add(event{kind: evSetup, urlok: u == want})
		if rq.setup == setupEarlyFail {
			return nil, errors.New("dial failed")
		}
		c := targetCert(rq.certID)
		pmu.Lock()
		certIDs[c] = rq.certID
		pmu.Unlock()
		if err := vc(c); err != nil {
			return nil, err
		}
		if !rq.postOK {
			return nil, errors.New("user authorization failed")
		}
		tP, tT := net.Pipe()
		if tcp {
			var err error
			if tP, tT, err = tcpPair(); err != nil {
				panic("driver: no TCP loopback: " + err.Error())
			}
		}
		addCloser(tP)
		addCloser(tT)
		tc := &recConn{Conn: tP, lg: lg, kind: evTW}
		if e2e {
			tci := func(i authgrants.Intent, c *certs.Certificate) error {
				kk := int(atomic.LoadInt32(&cur))
				id := -1
				if c == principalCert {
					id = 200
				}
				lg.add(event{kind: evTCheck, in: fromIntent(&i), cert: id, ok: reqs[kk].tcheck})
				if !reqs[kk].tcheck {
					return errors.New(reqs[kk].reason)
				}
				return nil
			}
			tadd := func(i *authgrants.Intent) error {
				kk := int(atomic.LoadInt32(&cur))
				lg.add(event{kind: evTAdd, in: fromIntent(i), ok: reqs[kk].tadd})
				if !reqs[kk].tadd {
					return errors.New(reqs[kk].reason)
				}
				pmu.Lock()
				res.stored = append(res.stored, fromIntent(i))
				pmu.Unlock()
				return nil
			}
			go authgrants.StartTargetInstance(&recConn{Conn: tT, lg: lg, kind: evTR}, principalCert, tci, tadd)
			return tc, nil
		}
		tc.beforeWrite = func() {
			if reqs[int(atomic.LoadInt32(&cur))].reply == rWriteFail {
				tT.Close()
			}
		}
		go scriptedTarget(tT, reqs, &cur, res, &pmu, lg, tcp)
		return tc, nil
	}

	done := make(chan struct{})
	go func() {
		defer close(done)
		authgrants.StartPrincipalInstance(dc, ci, su)
	}()

	prev := 0
	for k := range reqs {
		atomic.StoreInt32(&cur, int32(k))
		st := offer(dD, &offered, append([]byte{1}, reqs[k].in.body()...))
		if st == 0 {
			st = dc.waitIdle(atomic.LoadInt64(&offered), done, stepTimeout+reqs[k].delay)
		}
		evs := lg.snapshot()
		res.perReq = append(res.perReq, evs[prev:])
		prev = len(evs)
		if st != 0 {
			res.abnormal = st
			break
		}
	}
	// end of history: the delegate goes away; the principal must return
	total := 0
	for _, e := range lg.snapshot() {
		if e.kind == evDW && !e.failed {
			total += len(e.data)
		}
	}
	res.dlgBytes = dr.waitLen(total)
	dD.Close()
	if res.abnormal == 0 {
		select {
		case <-done:
		case <-time.After(stepTimeout):
			res.abnormal = 1
		}
	}
	cmu.Lock()
	for _, c := range closers {
		c.Close()
	}
	cmu.Unlock()
	return res
}

func tcpPair() (net.Conn, net.Conn, error) {
	l, err := net.Listen("tcp", "127.0.0.1:0")
	if err != nil {
		return nil, nil, err
	}
	defer l.Close()
	type r struct {
		c   net.Conn
		err error
	}
	ch := make(chan r, 1)
	go func() { c, err := l.Accept(); ch <- r{c, err} }()
	a, err := net.Dial("tcp", l.Addr().String())
	if err != nil {
		return nil, nil, err
	}
	b := <-ch
	if b.err != nil {
		a.Close()
		return nil, nil, b.err
	}
	return a, b.c, nil
}

func scriptedTarget(c net.Conn, reqs []preq, cur *int32, res *prun, mu *sync.Mutex, lg *evlog, byIntent bool) {
	last := -1
	for {
		t := make([]byte, 1)
		if _, err := c.Read(t); err != nil {
			return
		}
		if t[0] != 2 {
			c.Close()
			return
		}
		w, err := readWI(c)
		if err != nil {
			return
		}
		k := int(atomic.LoadInt32(cur))
		if byIntent {
			// the principal may already be at a later request when a slow answer is finally read
			for j := last + 1; j < len(reqs); j++ {
				if reqs[j].in.eq(w) {
					k = j
					break
				}
			}
		}
		last = k
		mode := reqs[k].reply
		mu.Lock()
		res.peerGot[k] = w
		res.peerSent[k] = mode
		mu.Unlock()
		if reqs[k].delay > 0 {
			time.Sleep(reqs[k].delay)
		}
		lg.add(event{kind: evPeerAct})
		switch mode {
		case rConfirm:
			c.Write([]byte{3})
		case rDeny:
			rs := reqs[k].reason
			if len(rs) > 255 {
				rs = rs[:255]
			}
			c.Write(append([]byte{4, byte(len(rs))}, []byte(rs)...))
		case rGarbageUnknown:
			c.Write([]byte{9})
		case rGarbageEcho:
			c.Write(append([]byte{2}, w.body()...))
		case rCloseAfterRead, rWriteFail:
			c.Close()
			return
		case rTruncDeny:
			c.Write([]byte{4, 10, 'a', 'b'})
			c.Close()
			return
		}
	}
}

// ---- target-instance run (real StartTargetInstance, scripted principal side)

type tmsg struct {
	in          wi
	bad         int // 0 well-formed communication; 1 wrong message type (an intent *request*); 2 truncated
	check, addk bool
	reason      string // error text of a refusing checkIntent / addAuthGrant
}

type trun struct {
	perMsg   [][]event
	abnormal int
	stored   []wi
}

func runTarget(msgs []tmsg) *trun {
	res := &trun{}
	lg := &evlog{}
	var cur int32
	var mu sync.Mutex
	pT, pP := net.Pipe()
	var offered int64
	tcn := newIdleConn(pT, lg, evTR, &offered)
	dr := &drain{}
	go dr.run(pP)
	pcert := targetCert(200)
	ci := func(i authgrants.Intent, c *certs.Certificate) error {
		k := int(atomic.LoadInt32(&cur))
		id := -1
		if c == pcert {
			id = 200
		}
		lg.add(event{kind: evTCheck, in: fromIntent(&i), cert: id, ok: msgs[k].check})
		if !msgs[k].check {
			return errors.New(msgs[k].reason)
		}
		return nil
	}
	add := func(i *authgrants.Intent) error {
		k := int(atomic.LoadInt32(&cur))
		lg.add(event{kind: evTAdd, in: fromIntent(i), ok: msgs[k].addk})
		if !msgs[k].addk {
			return errors.New(msgs[k].reason)
		}
		mu.Lock()
		res.stored = append(res.stored, fromIntent(i))
		mu.Unlock()
		return nil
	}
	done := make(chan struct{})
	go func() {
		defer close(done)
		authgrants.StartTargetInstance(tcn, pcert, ci, add)
	}()
	prev := 0
	dead := false
	for k, m := range msgs {
		atomic.StoreInt32(&cur, int32(k))
		if dead {
			res.perMsg = append(res.perMsg, nil)
			continue
		}
		var msg []byte
		switch m.bad {
		case 0:
			msg = append([]byte{2}, m.in.body()...)
		case 1:
			msg = append([]byte{1}, m.in.body()...)
		default:
			b := m.in.body()
			msg = append([]byte{2}, b[:len(b)/2]...)
		}
		st := offer(pP, &offered, msg)
		if m.bad == 2 {
			pP.Close()
		}
		if st == 0 && m.bad != 0 {
			// a malformed message ends the instance (it returns, closing the connection)
			select {
			case <-done:
				dead = true
			case <-time.After(stepTimeout):
				st = 1
			}
		} else if st == 0 {
			st = tcn.waitIdle(atomic.LoadInt64(&offered), done, stepTimeout)
		}
		evs := lg.snapshot()
		res.perMsg = append(res.perMsg, evs[prev:])
		prev = len(evs)
		if st != 0 {
			res.abnormal = st
			break
		}
	}
	pP.Close()
	if res.abnormal == 0 {
		select {
		case <-done:
		case <-time.After(stepTimeout):
			res.abnormal = 1
		}
	}
	pT.Close()
	return res
}

func itoa(v int) string {
	var b bytes.Buffer
	if v == 0 {
		return "0"
	}
	var d []byte
	for v > 0 {
		d = append([]byte{byte('0' + v%10)}, d...)
		v /= 10
	}
	b.Write(d)
	return b.String()
}
