(* WireFrame.v — tubes/frame.go (frame / initiateFrame toBytes, fromBytes, fromInitiateBytes,
   the muxer's re-framing), Unreliable.WriteMsgUDP's framing, Reliable.WriteMsgUDP/ReadMsgUDP's
   length prefix, and the control flow of sender.recvAck that decides whether s.frames is
   indexed.  Models the code after the wire group's fixes.  Definitions only. *)
From Hop Require Import Base WireBase.
Open Scope N_scope.

(* ---- frame ---- *)
Record flags := Fl { f_req : bool; f_resp : bool; f_rel : bool; f_ack : bool; f_fin : bool; f_rtr : bool }.
Record frame := Fr { fr_ack : N; fr_no : N; fr_dlen : N; fr_flags : flags; fr_tube : N; fr_data : bytes }.
Record iframe := Ifr { if_no : N; if_tube : N; if_type : N; if_data : bytes; if_dlen : N; if_flags : flags }.

Definition b2n (b : bool) : N := if b then 1 else 0.
(* flagsToMetaByte: REQ bit 0, RESP 1, REL 2, ACK 3, FIN 4, RTR 5 *)
Definition meta_of_flags (f : flags) : N :=
  b2n (f_req f) + 2 * b2n (f_resp f) + 4 * b2n (f_rel f) + 8 * b2n (f_ack f) + 16 * b2n (f_fin f) + 32 * b2n (f_rtr f).
(* metaToFlags: the two high bits are ignored *)
Definition flags_of_meta (b : N) : flags :=
  Fl (N.testbit b 0) (N.testbit b 1) (N.testbit b 2) (N.testbit b 3) (N.testbit b 4) (N.testbit b 5).

Definition beq_flags (a b : flags) : bool :=
  Bool.eqb (f_req a) (f_req b) && Bool.eqb (f_resp a) (f_resp b) && Bool.eqb (f_rel a) (f_rel b) &&
  Bool.eqb (f_ack a) (f_ack b) && Bool.eqb (f_fin a) (f_fin b) && Bool.eqb (f_rtr a) (f_rtr b).
Definition beq_frame (a b : frame) : bool :=
  (fr_ack a =? fr_ack b) && (fr_no a =? fr_no b) && (fr_dlen a =? fr_dlen b) && beq_flags (fr_flags a) (fr_flags b) &&
  (fr_tube a =? fr_tube b) && beq_bytes (fr_data a) (fr_data b).
Definition beq_iframe (a b : iframe) : bool :=
  (if_no a =? if_no b) && (if_tube a =? if_tube b) && (if_type a =? if_type b) && beq_bytes (if_data a) (if_data b) &&
  (if_dlen a =? if_dlen b) && beq_flags (if_flags a) (if_flags b).

(* frame.toBytes: 12-byte header, then ALL of data (dataLength is a separate field that the
   encoder does not compare with len(data)) *)
Definition frame_to_bytes (f : frame) : bytes :=
  [fr_tube f; meta_of_flags (fr_flags f)] ++ be_enc 2 (fr_dlen f) ++ be_enc 4 (fr_ack f) ++ be_enc 4 (fr_no f) ++ fr_data f.

(* initiateFrame.toBytes: 10-byte header *)
Definition iframe_to_bytes (f : iframe) : bytes :=
  [if_tube f; meta_of_flags (if_flags f)] ++ be_enc 2 (if_dlen f) ++ [if_type f; 0] ++ be_enc 4 (if_no f) ++ if_data f.

(* fromBytes (after the fix): len(b) < 12 or 12+int(dataLength) > len(b) -> errMalformedFrame.
   [frame_from_bytes_unfixed] keeps the original for the regression witness: b[2:4] on a short
   buffer and b[12:12+dataLength] with the sum taken in uint16. *)
Definition frame_from_bytes (b : bytes) : res frame :=
  if len b <? 12 then Err else
  let dl := be_dec (slice b 2 4) in
  if len b <? 12 + dl then Err else
  Ok (Fr (be_dec (slice b 4 8)) (be_dec (slice b 8 12)) dl (flags_of_meta (nthb b 1)) (nthb b 0) (slice b 12 (12 + dl))).

Definition frame_from_bytes_unfixed (b : bytes) : res frame :=
  if len b <? 4 then Panic else
  let dl := be_dec (slice b 2 4) in
  let hi := (12 + dl) mod 65536 in
  if (hi <? 12) || (len b <? hi) then Panic else       (* slice bounds out of range *)
  if len b <? 12 then Panic else
  Ok (Fr (be_dec (slice b 4 8)) (be_dec (slice b 8 12)) dl (flags_of_meta (nthb b 1)) (nthb b 0) (slice b 12 hi)).

(* fromInitiateBytes: no checks at all; 10+dataLength is a uint16 sum.  b[0], b[1], b[2:4],
   b[4], b[6:10], b[10:10+dl] panic when out of range. *)
Definition iframe_from_bytes (b : bytes) : res iframe :=
  if len b <? 4 then Panic else
  let dl := be_dec (slice b 2 4) in
  if len b <? 10 then Panic else
  let hi := (10 + dl) mod 65536 in
  if (hi <? 10) || (len b <? hi) then Panic else
  Ok (Ifr (be_dec (slice b 6 10)) (nthb b 0) (nthb b 4) (slice b 10 hi) dl (flags_of_meta (nthb b 1))).

(* what the muxer receiver does with a frame it treats as an initiate frame *)
Definition reframe (b : bytes) : res iframe :=
  f <- frame_from_bytes b ;; iframe_from_bytes (frame_to_bytes f).

Definition wt_flags (f : flags) : bool := true.
Definition wt_frame (f : frame) : bool :=
  (fr_ack f <? 2 ^ 32) && (fr_no f <? 2 ^ 32) && (fr_dlen f <? 65536) && (fr_tube f <? 256) && wf_bytes (fr_data f).
Definition repr_frame (f : frame) : bool := fr_dlen f =? len (fr_data f).
Definition wt_iframe (f : iframe) : bool :=
  (if_no f <? 2 ^ 32) && (if_dlen f <? 65536) && (if_tube f <? 256) && (if_type f <? 256) && wf_bytes (if_data f).
Definition repr_iframe (f : iframe) : bool := (if_dlen f =? len (if_data f)) && (if_dlen f <=? 65525).

(* ---- Unreliable.WriteMsgUDP (after the fix): len(b) > MaxFrameDataLength -> ErrBufOverflow,
   otherwise the frame {tubeID, frameNo, dataLength = len(b), data = b, no flags} is queued *)
Definition max_frame_data : N := 32768.
Definition no_flags : flags := Fl false false false false false false.
Definition unreliable_frame (id frame_no : N) (b : bytes) : res frame :=
  if max_frame_data <? len b then Err
  else Ok (Fr 0 frame_no (len b mod 65536) no_flags id b).
Definition unreliable_write (id frame_no : N) (b : bytes) : res bytes :=
  f <- unreliable_frame id frame_no b ;; Ok (frame_to_bytes f).

(* ---- Reliable.WriteMsgUDP / ReadMsgUDP: 2-byte length prefix inside the byte stream ---- *)
Definition enc_relmsg (b : bytes) : res bytes :=
  if 65535 <? len b then Err else Ok (be_enc 2 (len b) ++ b).
Definition dec_relmsg : M bytes :=
  h <~ read_fixed 2 ;; read_fixed (be_dec h).

(* ---- sender.recvAck: the part that decides whether s.frames[0] is touched ----
   state: ackNo (uint64), number of buffered frames, window size (uint16), duplicate-ack
   counter.  Result: new ackNo and number of frames left.  RTT / congestion arithmetic does not
   index anything and is outside this model (tubes group models it for C08). *)
Record sstate := Ss { s_ack : N; s_frames : N; s_window : N; s_dup : Z }.

Definition new_ack_no (s : sstate) (ack : N) : N :=
  (* newAckNo+(1<<32)-s.ackNo is a uint64 expression: it wraps instead of going negative *)
  if (ack <? s_ack s) && ((ack + 2 ^ 32 + 2 ^ 64 - s_ack s) mod 2 ^ 64 <=? s_window s) then ack + 2 ^ 32 else ack.

(* the retire loop: for s.ackNo < newAckNo { onSuccess (reads frames[0]); ackNo++; frames = frames[1:] } *)
Fixpoint retire (fuel : nat) (ack frames target : N) : res (N * N) :=
  if ack <? target then
    match fuel with
    | O => Panic
    | S f => if frames =? 0 then Panic (* frames[0] on an empty slice *)
             else retire f (ack + 1) (frames - 1) target
    end
  else Ok (ack, frames).

Definition recv_ack (s : sstate) (ack : N) : res (N * N) :=
  let target := new_ack_no s ack in
  if (100 <? s_dup s)%Z then Err                                        (* errTooManyDuplicateACKs *)
  else if (s_ack s <? target) && (s_frames s <? target - s_ack s) then Err   (* errAckBeyondSent (fix) *)
  else retire (S (N.to_nat (s_frames s))) (s_ack s) (s_frames s) target.

Definition recv_ack_unfixed (s : sstate) (ack : N) : res (N * N) :=
  let target := new_ack_no s ack in
  if (100 <? s_dup s)%Z then Err
  else retire (S (N.to_nat (s_frames s))) (s_ack s) (s_frames s) target.
