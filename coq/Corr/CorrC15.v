(* Correspondence entry point for C15: the same checker as C03 (one model, two property files);
   the c15 driver generates address-centred schedules and judges them with the C15 specification oracle. *)
From Hop Require Export PacketCorr RecvLoopCorr.
Definition c15_ok := c03_ok.
Definition c15x_ok := c03x_ok.
