(* HsPacketCompose.v — composition of the handshake group's server/client step model (Model/HsServer.v, C10)
   with the packet model (Model/Packet.v, C03/C15) instantiated with the real AEAD (Model/PacketSanse.v).

   HsServer.server_step / client_step take the handling of established-session packets as a parameter
       SM : HsServer.sess -> HsServer.addr -> bytes -> res HsServer.sess
   called AFTER PeekSession and the table lookup / session-id comparison — exactly where Packet.session_input
   starts ("from ss.m.Lock() on").  HsServer.sess holds what the handshake knows of a session (id, established,
   closed, keys, peer); the packet-level part of the SessionState (send counter, replay window, receive queue,
   reader buffer, remote address) is not in it.  The wrapper below therefore takes that part from an ARBITRARY
   function [ext] of the session (universally quantified in every theorem: "whatever the window, queue, counter
   and address of the session are"), runs Packet.session_input with Kravatte-SANSE, and projects the result back
   (the only handshake-visible effect of a session packet is the closed flag).  Return value: Go's
   handleSessionMessage returns nil for accepted packets AND for packets dropped because the session is
   already closed; both are Ok here; every other path is Err. *)
From Hop Require Import Base.
From Hop Require Handshake HsServer HsServerProofs.
From Hop Require Replay ReplayProofs Packet PacketSanse PacketProofs PacketSanseProofs.
Open Scope N_scope.

(* the packet-level part of a SessionState *)
Record pext := mkPext { x_count : N; x_window : Replay.win; x_queue : list bytes; x_qcap : N; x_rbuf : bytes; x_remote : N }.

Section Compose.
  Variable ext : HsServer.sess -> pext.        (* packet-level state of each session: arbitrary *)
  Variable aid : HsServer.addr -> N.           (* address ids (classes of EqualUDPAddress): arbitrary *)

  (* server side: reads with the client-to-server key, writes with the server-to-client key;
     readKey is nil until finishHandshake (s_est) *)
  Definition lift_srv (x : HsServer.sess) : Packet.sess :=
    let e := ext x in
    Packet.mkSess (HsServer.s_sid x) (HsServer.s_s2c x)
                  (if HsServer.s_est x then Some (HsServer.s_c2s x) else None)
                  (x_count e) (x_window e) (x_queue e) (x_qcap e) (x_rbuf e) (HsServer.s_closed x) (x_remote e).
  (* client side: the two keys swap roles *)
  Definition lift_cli (x : HsServer.sess) : Packet.sess :=
    let e := ext x in
    Packet.mkSess (HsServer.s_sid x) (HsServer.s_c2s x)
                  (if HsServer.s_est x then Some (HsServer.s_s2c x) else None)
                  (x_count e) (x_window e) (x_queue e) (x_qcap e) (x_rbuf e) (HsServer.s_closed x) (x_remote e).

  Definition unlift (ss : Packet.sess) (x : HsServer.sess) : HsServer.sess :=
    {| HsServer.s_sid := HsServer.s_sid x; HsServer.s_est := HsServer.s_est x;
       HsServer.s_closed := Packet.closed ss; HsServer.s_hidden := HsServer.s_hidden x;
       HsServer.s_c2s := HsServer.s_c2s x; HsServer.s_s2c := HsServer.s_s2c x; HsServer.s_peer := HsServer.s_peer x |}.

  Definition sm_of (lift : HsServer.sess -> Packet.sess) (x : HsServer.sess) (a : HsServer.addr) (d : bytes)
    : res HsServer.sess :=
    match Packet.session_input PacketSanse.sanse_open (lift x) (aid a) d with
    | Ok (ss', o) => if Packet.outcome_err o then Err else Ok (unlift ss' x)
    | Err => Err
    | Panic => Panic
    end.
  Definition sm_sanse := sm_of lift_srv.
  Definition sm_sanse_client := sm_of lift_cli.

  (* ---- premise 1: the session-packet path never panics ---- *)
  Lemma sm_of_total lift : HsServerProofs.sm_total (sm_of lift).
  Proof.
    intros x a d. unfold sm_of.
    destruct (Packet.session_input PacketSanse.sanse_open (lift x) (aid a) d) as [[ss' o]| |] eqn:S.
    - destruct (Packet.outcome_err o); discriminate.
    - discriminate.
    - exfalso. exact (PacketSanseProofs.session_input_never_panics_sanse _ _ _ S).
  Qed.

  Theorem server_step_total_composed O X s I a d :
    HsServerProofs.rand_ok s I -> HsServer.so_res (HsServer.server_step O X sm_sanse s I a d) <> Panic.
  Proof. apply HsServerProofs.server_step_total. apply sm_of_total. Qed.

  Theorem client_step_total_composed O X st a d stale :
    snd (HsServer.client_step O X sm_sanse_client st a d stale) <> Panic.
  Proof. apply HsServerProofs.client_step_total. apply sm_of_total. Qed.

  (* ---- premise 2: a datagram that authenticates under no session changes no session ---- *)
  (* "d authenticates under no session": for every session (in whatever packet-level state) d fails a header
     check, the replay check or SANSE's tag check — or the session is closed *)
  Definition unauthentic (d : bytes) : Prop :=
    forall x, Packet.opens PacketSanse.sanse_open (lift_srv x) d = None.

  Lemma unlift_lift x : unlift (lift_srv x) x = x.
  Proof. destruct x. reflexivity. Qed.

  (* for such a datagram the handler returns an error, or nil with the session untouched (closed session) *)
  Lemma sm_sanse_unauthentic a d : unauthentic d -> forall x, sm_sanse x a d = Err \/ sm_sanse x a d = Ok x.
  Proof.
    intros H x. unfold sm_sanse, sm_of.
    destruct (PacketProofs.unauthentic_changes_nothing PacketSanse.sanse_open (lift_srv x) (aid a) d (H x)) as [o [S Ho]].
    rewrite S. destruct (Packet.outcome_err o); [left; reflexivity|right]. now rewrite unlift_lift.
  Qed.

  Lemma upd_ss_found x : forall l sid, HsServer.find_ss sid l = Some x -> HsServer.upd_ss x l = l.
  Proof.
    induction l as [|y r IH]; intros sid; simpl; [discriminate|].
    destruct (beq_bytes sid (HsServer.s_sid y)) eqn:B.
    - intros E. inversion E; subst y. now rewrite PacketProofs.beq_bytes_refl.
    - intros E. destruct (beq_bytes (HsServer.s_sid x) (HsServer.s_sid y)) eqn:B2.
      + (* x has y's id, but sid (which found x later) differs from y's id: x's id is sid *)
        exfalso. clear IH. revert E. induction r as [|z r IHr]; simpl; [discriminate|].
        destruct (beq_bytes sid (HsServer.s_sid z)) eqn:B3; [|exact IHr].
        intros E. inversion E; subst z. apply PacketProofs.beq_bytes_eq in B3, B2. subst sid.
        rewrite B2, PacketProofs.beq_bytes_refl in B. discriminate.
      + f_equal. now apply IH with sid.
  Qed.

  Lemma set_ss_same s : HsServer.set_ss s (HsServer.sv_ss s) = s.
  Proof. destruct s. reflexivity. Qed.

  Lemma session_message_unauthentic s a d : unauthentic d -> fst (HsServer.session_message sm_sanse s a d) = s.
  Proof.
    intros H. unfold HsServer.session_message.
    destruct (len d <? _); [reflexivity|].
    destruct (HsServer.find_ss _ _) as [x|] eqn:F; [|reflexivity].
    destruct (sm_sanse_unauthentic a d H x) as [E|E]; rewrite E; [reflexivity|].
    cbn [fst]. rewrite (upd_ss_found x _ _ F). apply set_ss_same.
  Qed.

  (* the handler that differs from sm_sanse only in reporting an error where sm_sanse returns nil: it satisfies
     the premise sm_rejects literally, and server_step reaches the same state with either *)
  Definition sm_err (x : HsServer.sess) (a : HsServer.addr) (d : bytes) : res HsServer.sess :=
    match sm_sanse x a d with Ok _ => Err | r => r end.

  Lemma sm_err_rejects a d : HsServerProofs.sm_rejects sm_err a d.
  Proof. intros x. unfold sm_err. destruct (sm_sanse x a d); reflexivity. Qed.

  Lemma server_step_same_state O X s I a d :
    unauthentic d ->
    HsServer.so_srv (HsServer.server_step O X sm_sanse s I a d) = HsServer.so_srv (HsServer.server_step O X sm_err s I a d).
  Proof.
    intros H.
    assert (E1 : fst (HsServer.session_message sm_sanse s a d) = s) by now apply session_message_unauthentic.
    assert (E2 : fst (HsServer.session_message sm_err s a d) = s)
      by (apply HsServerProofs.session_message_reject; apply sm_err_rejects).
    unfold HsServer.server_step.
    destruct (HsServer.session_message sm_sanse s a d) as [s1 r1].
    destruct (HsServer.session_message sm_err s a d) as [s2 r2].
    cbn [fst] in E1, E2. subst s1 s2.
    repeat match goal with
           | |- HsServer.so_srv (if ?c then _ else _) = HsServer.so_srv (if ?c then _ else _) =>
             destruct c; [try reflexivity|]
           end;
    try reflexivity; destruct r1, r2; reflexivity.
  Qed.

  Theorem server_step_junk_leaves_state_composed O X s I a d :
    unauthentic d ->
    let o := HsServer.server_step O X sm_sanse s I a d in
    HsServer.so_srv o = s \/
    (Handshake.at_ d 0 = Handshake.MT_ClientAck /\
     exists n k, Handshake.read_client_ack O X (HsServer.sv_ck s) (fst a) (snd a) d = Ok (n, k)) \/
    (Handshake.at_ d 0 = Handshake.MT_ClientAuth /\ exists h, HsServer.find_hs a (HsServer.sv_hs s) = Some h) \/
    (Handshake.at_ d 0 = Handshake.MT_ClientRequestHidden /\
     exists T q, Handshake.read_request_hidden O X (HsServer.i_certs I) (HsServer.sv_pol s) (HsServer.i_now I) [] d = (T, Ok q)).
  Proof.
    intros H o. subst o. rewrite (server_step_same_state O X s I a d H).
    exact (HsServerProofs.server_step_junk_leaves_state O X sm_err s I a d (sm_err_rejects a d)).
  Qed.
End Compose.
